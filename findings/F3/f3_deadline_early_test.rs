use bytes::Bytes;
use deltio::subscriptions::subscription_manager::SubscriptionManager;
use deltio::subscriptions::*;
use deltio::topics::topic_manager::TopicManager;
use deltio::topics::*;
use std::time::Duration;
use tokio::time::Instant;

/// C04: a delivery must not become available for redelivery before hand-out + ack deadline.
#[tokio::test(start_paused = true)]
async fn deadline_is_never_before_handout_plus_ack_deadline() {
    // The first AckDeadline fixes the rounding epoch at the current (paused) instant.
    let t0 = Instant::now();
    let _ = AckDeadline::new(&t0);

    let topic_manager = TopicManager::new();
    let subscription_manager = SubscriptionManager::new(Default::default());
    let topic = topic_manager
        .create_topic(TopicName::new("p", "t"))
        .unwrap();
    let subscription = subscription_manager
        .create_subscription(
            SubscriptionInfo::new_with_defaults(SubscriptionName::new("p", "s")),
            topic.clone(),
        )
        .await
        .unwrap();
    topic
        .publish_messages(vec![TopicMessage::new(Bytes::from("m"), None)])
        .await
        .unwrap();

    // Hand the message out 500 ns after a point of the 100 ms rounding grid.
    tokio::time::advance(Duration::from_nanos(500)).await;
    let handout = Instant::now();
    let pulled = subscription.pull_messages(10).await.unwrap();
    assert_eq!(pulled.len(), 1);
    let due = handout + Duration::from_secs(10);
    assert!(
        pulled[0].deadline().time() >= due,
        "deadline is {:?} before hand-out + 10 s",
        due.duration_since(pulled[0].deadline().time())
    );
}

/// Same history, observed through the API only: 200 ns before the deadline nothing may be redelivered.
#[tokio::test(start_paused = true)]
async fn no_redelivery_before_the_deadline() {
    let t0 = Instant::now();
    let _ = AckDeadline::new(&t0);
    let topic_manager = TopicManager::new();
    let subscription_manager = SubscriptionManager::new(Default::default());
    let topic = topic_manager.create_topic(TopicName::new("p", "t2")).unwrap();
    let subscription = subscription_manager
        .create_subscription(
            SubscriptionInfo::new_with_defaults(SubscriptionName::new("p", "s2")),
            topic.clone(),
        )
        .await
        .unwrap();
    topic
        .publish_messages(vec![TopicMessage::new(Bytes::from("m"), None)])
        .await
        .unwrap();
    tokio::time::advance(Duration::from_nanos(500)).await;
    let handout = Instant::now();
    assert_eq!(subscription.pull_messages(10).await.unwrap().len(), 1);
    // 200 ns before hand-out + 10 s
    tokio::time::advance(Duration::from_secs(10) - Duration::from_nanos(200)).await;
    assert!(Instant::now() < handout + Duration::from_secs(10));
    println!("now - t0 = {:?}", Instant::now().duration_since(t0));
    let mut redelivered = 0;
    for _ in 0..200 {
        redelivered += subscription.pull_messages(10).await.unwrap().len();
        tokio::task::yield_now().await;
    }
    assert_eq!(redelivered, 0, "message was redelivered before its ack deadline elapsed");
}
