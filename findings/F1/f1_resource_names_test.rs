use deltio::subscriptions::SubscriptionName;
use deltio::topics::TopicName;

/// C18: the middle segment must be the literal `/topics/` (`/subscriptions/`).
#[test]
fn wrong_middle_segment_is_rejected() {
    assert_eq!(TopicName::try_parse("projects/p/subscriptions/x"), None);
    assert_eq!(SubscriptionName::try_parse("projects/p/topics/abcdefghi"), None);
    assert_eq!(TopicName::try_parse("projects/p/tobics/x"), None);
}

/// C18: the canonical name echoed for an accepted name is itself accepted and denotes the same resource.
#[test]
fn canonical_echo_is_accepted() {
    let parsed = TopicName::try_parse("projects/p/topics/a/").expect("accepted");
    let echoed = parsed.to_string();
    assert_eq!(TopicName::try_parse(&echoed), Some(parsed));
    let parsed = SubscriptionName::try_parse("projects/p/subscriptions/s/").expect("accepted");
    let echoed = parsed.to_string();
    assert_eq!(SubscriptionName::try_parse(&echoed), Some(parsed));
    // shortest canonical names
    assert!(TopicName::try_parse("projects/p/topics/t").is_some());
    assert!(SubscriptionName::try_parse("projects/p/subscriptions/s").is_some());
}

/// C18: project and resource IDs are never empty.
#[test]
fn empty_ids_are_rejected() {
    assert_eq!(TopicName::try_parse("projects//topics/abc"), None);
    assert_eq!(TopicName::try_parse("projects/p/topics////"), None);
    assert_eq!(SubscriptionName::try_parse("projects//subscriptions/abc"), None);
    assert_eq!(SubscriptionName::try_parse("projects/p/subscriptions////"), None);
}
