// F4 (C17): a StreamingPull control message that is rejected with INVALID_ARGUMENT must not have been applied in part.
// Drop into tests/ of jeffijoe/deltio. Fails on 79f6033 (the ack carried by the rejected message was applied: message
// "Hello" never comes back), passes with the fix.
use deltio::subscriptions::SubscriptionName;
use deltio::topics::TopicName;
use futures::StreamExt;
use std::time::Duration;
use test_helpers::*;
use tokio::time;
use tonic::Code;

pub mod test_helpers;

#[tokio::test]
async fn rejected_streaming_control_message_applies_nothing() {
    time::pause();
    let mut server = TestHost::start().await.unwrap();
    let topic_name = TopicName::new("test", "f4topic");
    server.create_topic_with_name(&topic_name).await;
    let subscription_name = SubscriptionName::new("test", "f4subscription");
    server
        .create_subscription_with_name(&topic_name, &subscription_name)
        .await;

    let (sender, mut inbound) = server.streaming_pull(&subscription_name).await;
    server
        .publish_text_messages(&topic_name, vec!["Hello".into(), "World".into()])
        .await;
    let response = inbound.next().await.unwrap().unwrap();
    assert_eq!(response.received_messages.len(), 2);
    let hello = response.received_messages[0].clone();

    // One control message: a valid ack of "Hello" and a malformed ack id in the deadline modifications.
    let mut control = streaming_ack(vec![hello.ack_id.clone()]);
    control.modify_deadline_ack_ids = vec!["not-an-ack-id".into()];
    control.modify_deadline_seconds = vec![10];
    sender.send(control).await.unwrap();

    // The message is rejected: the stream ends with INVALID_ARGUMENT.
    let status = loop {
        match inbound.next().await {
            Some(Err(status)) => break status,
            Some(Ok(_)) => continue,
            None => panic!("stream ended without a status"),
        }
    };
    assert_eq!(status.code(), Code::InvalidArgument);
    drop(sender);
    drop(inbound);

    // A rejected request changes no state: both deliveries are still outstanding and both come back after the
    // 10 s ack deadline.
    time::advance(Duration::from_secs(12)).await;
    let (sender, mut inbound) = server.streaming_pull(&subscription_name).await;
    let response = inbound.next().await.unwrap().unwrap();
    let mut texts: Vec<String> = response
        .received_messages
        .iter()
        .map(|m| String::from_utf8(m.message.clone().unwrap().data).unwrap())
        .collect();
    texts.sort();
    assert_eq!(texts, vec!["Hello".to_string(), "World".to_string()]);

    drop(sender);
    drop(inbound);
    server.dispose().await;
}
