use deltio::pubsub_proto::{PublishRequest, PubsubMessage, PushConfig, Subscription};
use deltio::subscriptions::SubscriptionName;
use deltio::topics::TopicName;
use std::collections::HashMap;
use std::time::Duration;
use test_helpers::*;

pub mod push_server;
pub mod test_helpers;

/// C09: a push delivery carries exactly the published attributes.
#[tokio::test]
async fn push_delivery_carries_the_published_attributes() {
    let mut server = TestHost::start().await.unwrap();
    let mut push_server = push_server::TestPushServer::start().await.unwrap();
    let topic_name = TopicName::new("test", "topic");
    server.create_topic_with_name(&topic_name).await;
    let subscription_name = SubscriptionName::new("test", "subscription");
    server
        .subscriber
        .create_subscription(Subscription {
            push_config: Some(PushConfig {
                attributes: Default::default(),
                authentication_method: None,
                push_endpoint: push_server.url(),
            }),
            ..map_to_subscription_resource(&subscription_name, &topic_name)
        })
        .await
        .unwrap();

    let attributes: HashMap<String, String> = vec![
        ("Attr1".to_string(), "Value1".to_string()),
        ("kéy".to_string(), "välue".to_string()),
    ]
    .into_iter()
    .collect();
    server
        .publisher
        .publish(PublishRequest {
            topic: topic_name.to_string(),
            messages: vec![PubsubMessage {
                publish_time: None,
                attributes: attributes.clone(),
                message_id: Default::default(),
                ordering_key: Default::default(),
                data: "Hello".as_bytes().to_vec(),
            }],
        })
        .await
        .unwrap();

    tokio::time::pause();
    tokio::time::advance(Duration::from_secs(1)).await;
    tokio::time::resume();
    let payload = push_server.next().await.unwrap();
    assert_eq!(payload.message.attributes, attributes);
    payload.succeed();
    push_server.dispose().await;
    server.dispose().await;
}
