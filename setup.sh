#!/bin/sh
# MANIFEST.setup_cmd: offline, from files on disk only
set -e
cd /verif
mkdir -p .work evidence/replay
verus --version >/dev/null
# pre-build the replay crate (bounded stand-ins / witness search) against /repo so that the first check finds it warm
python3 - <<'PY'
import sys
sys.path.insert(0, "/verif/replay")
import replay_driver
b, err = replay_driver._build("/verif", "/repo")
print("replay crate:", b or ("BUILD FAILED: " + err))
PY
echo "setup ok"
