#!/bin/sh
# MANIFEST.setup_cmd: offline, from files on disk only
set -e
cd /verif
mkdir -p .work evidence/replay
verus --version >/dev/null
echo "setup ok"
