// ======================================================================================
// layer 2: history lemmas over the subscription view (pure spec/proof; talks only about views)
//
// Identity of a message = its MessageId value. The step relations below are exactly the postconditions
// of the handlers verified above (post_messages, pull_messages, acknowledge_messages, modify_deadline,
// take_expired + handle_expired_messages, delete).

pub open spec fn mid_of(m: Arc<TopicMessage>) -> u64 { m.id.value }

pub open spec fn in_backlog(s: SubView, m: u64) -> bool {
    exists|i: int| 0 <= i < s.backlog.len() && mid_of(#[trigger] s.backlog[i]) == m
}
pub open spec fn in_leases(s: SubView, m: u64) -> bool {
    exists|a: AckId| s.out.dom().contains(a) && mid_of((#[trigger] s.out[a]).msg()) == m
}
/// the subscription still holds message m (pending in the backlog or leased)
pub open spec fn live(s: SubView, m: u64) -> bool { in_backlog(s, m) || in_leases(s, m) }

/// C03 invariant U: every message occurs at most once in backlog (+) leases
pub open spec fn uniq(s: SubView) -> bool {
    &&& forall|i: int, j: int| 0 <= i < j < s.backlog.len() ==> mid_of(#[trigger] s.backlog[i]) != mid_of(#[trigger] s.backlog[j])
    &&& forall|a: AckId, b: AckId| s.out.dom().contains(a) && s.out.dom().contains(b) && a != b
            ==> mid_of((#[trigger] s.out[a]).msg()) != mid_of((#[trigger] s.out[b]).msg())
    &&& forall|i: int, a: AckId| 0 <= i < s.backlog.len() && s.out.dom().contains(a)
            ==> mid_of(#[trigger] s.backlog[i]) != mid_of((#[trigger] s.out[a]).msg())
}
pub open spec fn msgs_of(v: Seq<PulledMessage>) -> Seq<Arc<TopicMessage>> {
    v.map_values(|p: PulledMessage| p.msg())
}
pub open spec fn ids_of(v: Seq<PulledMessage>) -> Set<AckId> {
    v.map_values(|p: PulledMessage| p.id()).to_set()
}

pub proof fn lemma_ids_of(v: Seq<PulledMessage>)
    ensures forall|a: AckId| ids_of(v).contains(a) <==> exists|k: int| 0 <= k < v.len() && (#[trigger] v[k]).id() == a
{
    let w = v.map_values(|p: PulledMessage| p.id());
    assert forall|a: AckId| ids_of(v).contains(a) <==> exists|k: int| 0 <= k < v.len() && (#[trigger] v[k]).id() == a by {
        if w.contains(a) {
            let k = choose|k: int| 0 <= k < w.len() && w[k] == a;
            assert(v[k].id() == a);
        }
        if exists|k: int| 0 <= k < v.len() && (#[trigger] v[k]).id() == a {
            let k = choose|k: int| 0 <= k < v.len() && (#[trigger] v[k]).id() == a;
            assert(w[k] == a);
            assert(w.contains(a));
        }
    }
}

// ---- post --------------------------------------------------------------------------------------
pub open spec fn fresh_batch(s: SubView, ms: Seq<Arc<TopicMessage>>) -> bool {
    &&& forall|i: int, j: int| 0 <= i < j < ms.len() ==> mid_of(#[trigger] ms[i]) != mid_of(#[trigger] ms[j])
    &&& forall|i: int| 0 <= i < ms.len() ==> !live(s, mid_of(#[trigger] ms[i]))
}
pub proof fn lemma_post(s: SubView, ms: Seq<Arc<TopicMessage>>)
    requires uniq(s), fresh_batch(s, ms)
    ensures
        uniq(SubView { backlog: s.backlog + ms, ..s }),
        forall|m: u64| live(SubView { backlog: s.backlog + ms, ..s }, m)
            <==> (live(s, m) || exists|k: int| 0 <= k < ms.len() && mid_of(#[trigger] ms[k]) == m),
{
    let t = SubView { backlog: s.backlog + ms, ..s };
    let n = s.backlog.len() as int;
    assert forall|i: int, j: int| 0 <= i < j < t.backlog.len() implies mid_of(#[trigger] t.backlog[i]) != mid_of(#[trigger] t.backlog[j]) by {
        if j < n { } else if i >= n {
            assert(t.backlog[i] == ms[i - n] && t.backlog[j] == ms[j - n]);
        } else {
            assert(t.backlog[j] == ms[j - n]);
            assert(t.backlog[i] == s.backlog[i]);
            assert(in_backlog(s, mid_of(s.backlog[i])));
        }
    }
    assert forall|i: int, a: AckId| 0 <= i < t.backlog.len() && t.out.dom().contains(a)
        implies mid_of(#[trigger] t.backlog[i]) != mid_of((#[trigger] t.out[a]).msg()) by {
        if i >= n {
            assert(t.backlog[i] == ms[i - n]);
            assert(in_leases(s, mid_of(s.out[a].msg())));
        } else { assert(t.backlog[i] == s.backlog[i]); }
    }
    assert forall|m: u64| live(t, m) <==> (live(s, m) || exists|k: int| 0 <= k < ms.len() && mid_of(#[trigger] ms[k]) == m) by {
        if in_backlog(t, m) {
            let i = choose|i: int| 0 <= i < t.backlog.len() && mid_of(#[trigger] t.backlog[i]) == m;
            if i < n { assert(t.backlog[i] == s.backlog[i]); assert(in_backlog(s, m)); }
            else { assert(t.backlog[i] == ms[i - n]); }
        }
        if in_backlog(s, m) {
            let i = choose|i: int| 0 <= i < s.backlog.len() && mid_of(#[trigger] s.backlog[i]) == m;
            assert(t.backlog[i] == s.backlog[i]);
        }
        if exists|k: int| 0 <= k < ms.len() && mid_of(#[trigger] ms[k]) == m {
            let k = choose|k: int| 0 <= k < ms.len() && mid_of(#[trigger] ms[k]) == m;
            assert(t.backlog[n + k] == ms[k]);
        }
    }
}

// ---- requeue: a set of distinct leases goes back to the end of the backlog (expiry, nack) -------
pub open spec fn requeued(s: SubView, exp: Seq<PulledMessage>, t: SubView) -> bool {
    &&& listed_ok(exp, s.out)
    &&& t.out == s.out.remove_keys(ids_of(exp))
    &&& t.backlog == s.backlog + msgs_of(exp)
}
pub proof fn lemma_requeue(s: SubView, exp: Seq<PulledMessage>, t: SubView)
    requires uniq(s), requeued(s, exp, t)
    ensures uniq(t), forall|m: u64| live(t, m) <==> live(s, m)
{
    let n = s.backlog.len() as int;
    let ms = msgs_of(exp);
    lemma_ids_of(exp);
    assert forall|k: int| 0 <= k < exp.len() implies s.out.dom().contains(#[trigger] exp[k].id()) && s.out[exp[k].id()] == exp[k] && ms[k] == exp[k].msg() by {}
    assert forall|i: int, j: int| 0 <= i < j < t.backlog.len() implies mid_of(#[trigger] t.backlog[i]) != mid_of(#[trigger] t.backlog[j]) by {
        if j < n { assert(t.backlog[i] == s.backlog[i] && t.backlog[j] == s.backlog[j]); }
        else if i >= n {
            let a = exp[i - n].id(); let b = exp[j - n].id();
            assert(t.backlog[i] == s.out[a].msg() && t.backlog[j] == s.out[b].msg());
            assert(a != b);
        } else {
            let b = exp[j - n].id();
            assert(t.backlog[i] == s.backlog[i] && t.backlog[j] == s.out[b].msg());
        }
    }
    assert forall|a: AckId, b: AckId| t.out.dom().contains(a) && t.out.dom().contains(b) && a != b
        implies mid_of((#[trigger] t.out[a]).msg()) != mid_of((#[trigger] t.out[b]).msg()) by {
        assert(t.out[a] == s.out[a] && t.out[b] == s.out[b]);
    }
    assert forall|i: int, a: AckId| 0 <= i < t.backlog.len() && t.out.dom().contains(a)
        implies mid_of(#[trigger] t.backlog[i]) != mid_of((#[trigger] t.out[a]).msg()) by {
        assert(t.out[a] == s.out[a]);
        if i >= n {
            let b = exp[i - n].id();
            assert(t.backlog[i] == s.out[b].msg());
            assert(ids_of(exp).contains(b));
            assert(a != b);
        } else { assert(t.backlog[i] == s.backlog[i]); }
    }
    assert forall|m: u64| live(t, m) <==> live(s, m) by {
        if in_backlog(t, m) {
            let i = choose|i: int| 0 <= i < t.backlog.len() && mid_of(#[trigger] t.backlog[i]) == m;
            if i < n { assert(t.backlog[i] == s.backlog[i]); assert(in_backlog(s, m)); }
            else { let b = exp[i - n].id(); assert(t.backlog[i] == s.out[b].msg()); assert(in_leases(s, m)); }
        }
        if in_leases(t, m) {
            let a = choose|a: AckId| t.out.dom().contains(a) && mid_of((#[trigger] t.out[a]).msg()) == m;
            assert(t.out[a] == s.out[a]); assert(in_leases(s, m));
        }
        if in_backlog(s, m) {
            let i = choose|i: int| 0 <= i < s.backlog.len() && mid_of(#[trigger] s.backlog[i]) == m;
            assert(t.backlog[i] == s.backlog[i]); assert(in_backlog(t, m));
        }
        if in_leases(s, m) {
            let a = choose|a: AckId| s.out.dom().contains(a) && mid_of((#[trigger] s.out[a]).msg()) == m;
            if ids_of(exp).contains(a) {
                let k = choose|k: int| 0 <= k < exp.len() && (#[trigger] exp[k]).id() == a;
                assert(t.backlog[n + k] == ms[k]);
                assert(in_backlog(t, m));
            } else { assert(t.out.dom().contains(a) && t.out[a] == s.out[a]); assert(in_leases(t, m)); }
        }
    }
}

// ---- ack: leases leave for good -----------------------------------------------------------------
pub proof fn lemma_ack(s: SubView, ks: Set<AckId>)
    requires uniq(s)
    ensures
        uniq(SubView { out: s.out.remove_keys(ks), ..s }),
        forall|m: u64| live(SubView { out: s.out.remove_keys(ks), ..s }, m) ==> live(s, m),
        // C02: the message of an acknowledged outstanding lease is no longer held by the subscription
        forall|a: AckId| ks.contains(a) && s.out.dom().contains(a)
            ==> !live(SubView { out: s.out.remove_keys(ks), ..s }, mid_of((#[trigger] s.out[a]).msg())),
        // ... and nothing else changes: every other message keeps its state
        forall|m: u64| live(s, m) && !(exists|a: AckId| ks.contains(a) && s.out.dom().contains(a) && mid_of((#[trigger] s.out[a]).msg()) == m)
            ==> live(SubView { out: s.out.remove_keys(ks), ..s }, m),
{
    let t = SubView { out: s.out.remove_keys(ks), ..s };
    assert forall|a: AckId, b: AckId| t.out.dom().contains(a) && t.out.dom().contains(b) && a != b
        implies mid_of((#[trigger] t.out[a]).msg()) != mid_of((#[trigger] t.out[b]).msg()) by {
        assert(t.out[a] == s.out[a] && t.out[b] == s.out[b]);
    }
    assert forall|i: int, a: AckId| 0 <= i < t.backlog.len() && t.out.dom().contains(a)
        implies mid_of(#[trigger] t.backlog[i]) != mid_of((#[trigger] t.out[a]).msg()) by {
        assert(t.out[a] == s.out[a]);
    }
    assert forall|m: u64| live(t, m) implies live(s, m) by {
        if in_leases(t, m) {
            let a = choose|a: AckId| t.out.dom().contains(a) && mid_of((#[trigger] t.out[a]).msg()) == m;
            assert(t.out[a] == s.out[a]); assert(in_leases(s, m));
        }
    }
    assert forall|a: AckId| ks.contains(a) && s.out.dom().contains(a)
        implies !live(t, mid_of((#[trigger] s.out[a]).msg())) by {
        let m = mid_of(s.out[a].msg());
        if in_backlog(t, m) {
            let i = choose|i: int| 0 <= i < t.backlog.len() && mid_of(#[trigger] t.backlog[i]) == m;
            assert(mid_of(s.backlog[i]) != mid_of(s.out[a].msg()));
        }
        if in_leases(t, m) {
            let b = choose|b: AckId| t.out.dom().contains(b) && mid_of((#[trigger] t.out[b]).msg()) == m;
            assert(t.out[b] == s.out[b]);
            assert(a != b);
        }
    }
    assert forall|m: u64| live(s, m) && !(exists|a: AckId| ks.contains(a) && s.out.dom().contains(a) && mid_of((#[trigger] s.out[a]).msg()) == m)
        implies live(t, m) by {
        if in_leases(s, m) {
            let a = choose|a: AckId| s.out.dom().contains(a) && mid_of((#[trigger] s.out[a]).msg()) == m;
            assert(!ks.contains(a));
            assert(t.out.dom().contains(a) && t.out[a] == s.out[a]);
            assert(in_leases(t, m));
        }
    }
}

// ---- pull: backlog prefix -> leases, same turn ------------------------------------------------------
pub proof fn lemma_out_after_pull(s: SubView, v: Seq<PulledMessage>)
    requires
        leases_inv(s.out, s.next),
        forall|i: int| 0 <= i < v.len() ==> (#[trigger] v[i]).id().v() == s.next + i,
    ensures
        forall|a: AckId| out_after_pull(s, v).dom().contains(a)
            <==> (s.out.dom().contains(a) || exists|i: int| 0 <= i < v.len() && (#[trigger] v[i]).id() == a),
        forall|a: AckId| s.out.dom().contains(a) ==> out_after_pull(s, v)[a] == s.out[a],
        forall|i: int| 0 <= i < v.len() ==> out_after_pull(s, v)[(#[trigger] v[i]).id()] == v[i],
    decreases v.len()
{
    if v.len() == 0 {
        assert(out_after_pull(s, v) == s.out);
    } else {
        let w = v.drop_last();
        let x = v.last();
        lemma_out_after_pull(s, w);
        let ow = out_after_pull(s, w);
        assert(out_after_pull(s, v) == ow.insert(x.id(), x));
        assert forall|i: int| 0 <= i < w.len() implies (#[trigger] w[i]) == v[i] by {}
        let ov = out_after_pull(s, v);
        assert(v[v.len() - 1] == x);
        assert forall|a: AckId| ov.dom().contains(a)
            <==> (s.out.dom().contains(a) || exists|i: int| 0 <= i < v.len() && (#[trigger] v[i]).id() == a) by {
            if ov.dom().contains(a) {
                if a == x.id() {
                    assert(v[v.len() - 1].id() == a);
                } else {
                    assert(ow.dom().contains(a));
                    if !s.out.dom().contains(a) {
                        let i = choose|i: int| 0 <= i < w.len() && (#[trigger] w[i]).id() == a;
                        assert(v[i].id() == a);
                    }
                }
            }
            if s.out.dom().contains(a) {
                assert(ow.dom().contains(a));
            }
            if exists|i: int| 0 <= i < v.len() && (#[trigger] v[i]).id() == a {
                let i = choose|i: int| 0 <= i < v.len() && (#[trigger] v[i]).id() == a;
                if i < w.len() {
                    assert(w[i].id() == a);
                    assert(ow.dom().contains(a));
                } else {
                    assert(a == x.id());
                }
            }
        }
        assert forall|a: AckId| s.out.dom().contains(a) implies out_after_pull(s, v)[a] == s.out[a] by {
            assert(a.v() < s.next);
            assert(x.id().v() == s.next + (v.len() - 1));
        }
        assert forall|i: int| 0 <= i < v.len() implies out_after_pull(s, v)[(#[trigger] v[i]).id()] == v[i] by {
            if i < w.len() {
                assert(w[i] == v[i]);
                assert(v[i].id().v() != x.id().v());
            }
        }
    }
}

/// C03: a pull hands out messages that were pending, keeps every message at most once in backlog (+) leases,
/// and neither loses nor invents a message.
pub proof fn lemma_pull(s: SubView, v: Seq<PulledMessage>, n: int, now: int, d: nat)
    requires uniq(s), leases_inv(s.out, s.next), pulled_ok(v, s, n, now, d)
    ensures
        uniq(pull_view(s, v)),
        leases_inv(pull_view(s, v).out, pull_view(s, v).next),
        forall|m: u64| live(pull_view(s, v), m) <==> live(s, m),
        // every delivered message was in the backlog, in this order (first deliveries follow post order, C08)
        forall|i: int| 0 <= i < n ==> (#[trigger] v[i]).msg() == s.backlog[i],
        // while leased it is not in the backlog, so no other pull can return it (C03)
        forall|i: int| 0 <= i < n ==> !in_backlog(pull_view(s, v), mid_of((#[trigger] v[i]).msg())),
        // ack ids are fresh: not in use before the pull
        forall|i: int| 0 <= i < n ==> !s.out.dom().contains((#[trigger] v[i]).id()),
{
    let t = pull_view(s, v);
    lemma_out_after_pull(s, v);
    assert forall|i: int| 0 <= i < t.backlog.len() implies (#[trigger] t.backlog[i]) == s.backlog[i + n] by {}
    assert forall|i: int, j: int| 0 <= i < j < t.backlog.len() implies mid_of(#[trigger] t.backlog[i]) != mid_of(#[trigger] t.backlog[j]) by {
        assert(t.backlog[i] == s.backlog[i + n] && t.backlog[j] == s.backlog[j + n]);
    }
    // classification of a lease of t: old lease or one of v
    assert forall|a: AckId| t.out.dom().contains(a) implies
        (s.out.dom().contains(a) && t.out[a] == s.out[a]) || (exists|i: int| 0 <= i < n && (#[trigger] v[i]).id() == a && t.out[a] == v[i]) by {
        if !s.out.dom().contains(a) {
            let i = choose|i: int| 0 <= i < v.len() && (#[trigger] v[i]).id() == a;
            assert(t.out[v[i].id()] == v[i]);
        }
    }
    assert forall|i: int| 0 <= i < n implies !s.out.dom().contains((#[trigger] v[i]).id()) by {
        if s.out.dom().contains(v[i].id()) { assert(v[i].id().v() < s.next); }
    }
    assert forall|a: AckId, b: AckId| t.out.dom().contains(a) && t.out.dom().contains(b) && a != b
        implies mid_of((#[trigger] t.out[a]).msg()) != mid_of((#[trigger] t.out[b]).msg()) by {
        if s.out.dom().contains(a) && s.out.dom().contains(b) {
        } else if s.out.dom().contains(a) {
            let j = choose|j: int| 0 <= j < n && (#[trigger] v[j]).id() == b && t.out[b] == v[j];
            assert(v[j].msg() == s.backlog[j]);
        } else if s.out.dom().contains(b) {
            let i = choose|i: int| 0 <= i < n && (#[trigger] v[i]).id() == a && t.out[a] == v[i];
            assert(v[i].msg() == s.backlog[i]);
        } else {
            let i = choose|i: int| 0 <= i < n && (#[trigger] v[i]).id() == a && t.out[a] == v[i];
            let j = choose|j: int| 0 <= j < n && (#[trigger] v[j]).id() == b && t.out[b] == v[j];
            assert(v[i].msg() == s.backlog[i] && v[j].msg() == s.backlog[j]);
            assert(i != j);
            if i < j { assert(mid_of(s.backlog[i]) != mid_of(s.backlog[j])); } else { assert(mid_of(s.backlog[j]) != mid_of(s.backlog[i])); }
        }
    }
    assert forall|i: int, a: AckId| 0 <= i < t.backlog.len() && t.out.dom().contains(a)
        implies mid_of(#[trigger] t.backlog[i]) != mid_of((#[trigger] t.out[a]).msg()) by {
        assert(t.backlog[i] == s.backlog[i + n]);
        if s.out.dom().contains(a) { } else {
            let j = choose|j: int| 0 <= j < n && (#[trigger] v[j]).id() == a && t.out[a] == v[j];
            assert(v[j].msg() == s.backlog[j]);
            assert(mid_of(s.backlog[j]) != mid_of(s.backlog[i + n]));
        }
    }
    assert forall|a: AckId| t.out.dom().contains(a) implies a.v() < t.next && t.out[a].id() == a by {
        if !s.out.dom().contains(a) {
            let j = choose|j: int| 0 <= j < n && (#[trigger] v[j]).id() == a && t.out[a] == v[j];
        }
    }
    assert forall|m: u64| live(t, m) <==> live(s, m) by {
        if in_backlog(t, m) {
            let i = choose|i: int| 0 <= i < t.backlog.len() && mid_of(#[trigger] t.backlog[i]) == m;
            assert(t.backlog[i] == s.backlog[i + n]);
            assert(in_backlog(s, m));
        }
        if in_leases(t, m) {
            let a = choose|a: AckId| t.out.dom().contains(a) && mid_of((#[trigger] t.out[a]).msg()) == m;
            if s.out.dom().contains(a) { assert(in_leases(s, m)); } else {
                let j = choose|j: int| 0 <= j < n && (#[trigger] v[j]).id() == a && t.out[a] == v[j];
                assert(v[j].msg() == s.backlog[j]);
                assert(in_backlog(s, m));
            }
        }
        if in_backlog(s, m) {
            let i = choose|i: int| 0 <= i < s.backlog.len() && mid_of(#[trigger] s.backlog[i]) == m;
            if i < n {
                assert(v[i].msg() == s.backlog[i]);
                assert(t.out[v[i].id()] == v[i]);
                assert(t.out.dom().contains(v[i].id()));
                assert(in_leases(t, m));
            } else {
                assert(t.backlog[i - n] == s.backlog[i]);
                assert(in_backlog(t, m));
            }
        }
        if in_leases(s, m) {
            let a = choose|a: AckId| s.out.dom().contains(a) && mid_of((#[trigger] s.out[a]).msg()) == m;
            assert(t.out.dom().contains(a) && t.out[a] == s.out[a]);
            assert(in_leases(t, m));
        }
    }
    assert forall|i: int| 0 <= i < n implies !in_backlog(t, mid_of((#[trigger] v[i]).msg())) by {
        if in_backlog(t, mid_of(v[i].msg())) {
            let j = choose|j: int| 0 <= j < t.backlog.len() && mid_of(#[trigger] t.backlog[j]) == mid_of(v[i].msg());
            assert(t.backlog[j] == s.backlog[j + n]);
            assert(v[i].msg() == s.backlog[i]);
            assert(mid_of(s.backlog[i]) != mid_of(s.backlog[j + n]));
        }
    }
}

// ---- expiry: what take_expired + handle_expired_messages guarantee is a requeue -----------------------
/// the postconditions of take_expired (tracker) and handle_expired_messages (backlog), as one relation
pub open spec fn expire_post(s: SubView, now: int, exp: Seq<PulledMessage>, t: SubView) -> bool {
    &&& forall|id: AckId| #![trigger t.out.dom().contains(id)] #![trigger s.out.dom().contains(id)]
            t.out.dom().contains(id) <==> (s.out.dom().contains(id) && now < s.out[id].dl().t())
    &&& forall|id: AckId| t.out.dom().contains(id) ==> t.out[id] == s.out[id]
    &&& taken_ok(exp, s.out, now)
    &&& forall|id: AckId| s.out.dom().contains(id) && !t.out.dom().contains(id) ==> exists|i: int| 0 <= i < exp.len() && (#[trigger] exp[i]).id() == id
    &&& t.backlog == s.backlog + msgs_of(exp)
    &&& t.next == s.next && t.deleted == s.deleted
}
pub proof fn lemma_expire_is_requeue(s: SubView, now: int, exp: Seq<PulledMessage>, t: SubView)
    requires expire_post(s, now, exp, t)
    ensures requeued(s, exp, t),
        // C04: nothing is requeued before its deadline: every requeued lease had deadline <= now, every kept one > now
        forall|i: int| 0 <= i < exp.len() ==> (#[trigger] exp[i]).dl().t() <= now,
        forall|id: AckId| t.out.dom().contains(id) ==> now < (#[trigger] t.out[id]).dl().t(),
{
    lemma_ids_of(exp);
    assert forall|i: int| 0 <= i < exp.len() implies (#[trigger] exp[i]).dl().t() <= now by {
        assert(s.out.dom().contains(exp[i].id()));
    }
    assert(t.out =~= s.out.remove_keys(ids_of(exp))) by {
        assert forall|id: AckId| t.out.dom().contains(id) <==> s.out.remove_keys(ids_of(exp)).dom().contains(id) by {
            if t.out.dom().contains(id) {
                if ids_of(exp).contains(id) {
                    let k = choose|k: int| 0 <= k < exp.len() && (#[trigger] exp[k]).id() == id;
                    assert(exp[k].dl().t() <= now);
                    assert(s.out[exp[k].id()] == exp[k]);
                }
            }
            if s.out.dom().contains(id) && !ids_of(exp).contains(id) {
                if !t.out.dom().contains(id) {
                    let i = choose|i: int| 0 <= i < exp.len() && (#[trigger] exp[i]).id() == id;
                }
            }
        }
    }
}

// ---- modify: per modification either nothing, a deadline change, or a requeue of one lease ------------
pub open spec fn mod_view(s: SubView, st: ModState) -> SubView {
    SubView { out: st.out, backlog: s.backlog + msgs_of(st.nacked), ..s }
}
pub proof fn lemma_redeadline(s: SubView, a: AckId, d: AckDeadline)
    requires uniq(s), s.out.dom().contains(a), leases_inv(s.out, s.next)
    ensures
        uniq(SubView { out: s.out.insert(a, s.out[a].with_deadline(d)), ..s }),
        leases_inv(s.out.insert(a, s.out[a].with_deadline(d)), s.next),
        forall|m: u64| live(SubView { out: s.out.insert(a, s.out[a].with_deadline(d)), ..s }, m) <==> live(s, m),
{
    let t = SubView { out: s.out.insert(a, s.out[a].with_deadline(d)), ..s };
    assert(s.out[a].with_deadline(d).msg() == s.out[a].msg());
    assert(s.out[a].with_deadline(d).id() == s.out[a].id());
    assert forall|b: AckId| t.out.dom().contains(b) implies s.out.dom().contains(b) && (#[trigger] t.out[b]).msg() == s.out[b].msg() by {}
    assert forall|m: u64| live(t, m) <==> live(s, m) by {
        if in_leases(t, m) {
            let b = choose|b: AckId| t.out.dom().contains(b) && mid_of((#[trigger] t.out[b]).msg()) == m;
            assert(t.out[b].msg() == s.out[b].msg());
            assert(in_leases(s, m));
        }
        if in_leases(s, m) {
            let b = choose|b: AckId| s.out.dom().contains(b) && mid_of((#[trigger] s.out[b]).msg()) == m;
            assert(t.out.dom().contains(b) && t.out[b].msg() == s.out[b].msg());
            assert(in_leases(t, m));
        }
    }
}
pub proof fn lemma_modify(s: SubView, mods: Seq<DeadlineModification>)
    requires uniq(s), leases_inv(s.out, s.next)
    ensures
        uniq(modify_view(s, mods)),
        leases_inv(modify_view(s, mods).out, s.next),
        forall|m: u64| live(modify_view(s, mods), m) <==> live(s, m),
    decreases mods.len()
{
    let init = ModState { out: s.out, nacked: Seq::empty() };
    if mods.len() == 0 {
        assert(apply_mods(init, mods) == init);
        assert(msgs_of(init.nacked) =~= Seq::<Arc<TopicMessage>>::empty());
        assert(s.backlog + msgs_of(init.nacked) =~= s.backlog);
        assert(modify_view(s, mods) == s);
    } else {
        let ms0 = mods.drop_last();
        let md = mods.last();
        lemma_modify(s, ms0);
        let st1 = apply_mods(init, ms0);
        let st2 = apply_mod(st1, md);
        assert(apply_mods(init, mods) == st2);
        let s1 = modify_view(s, ms0);
        let s2 = modify_view(s, mods);
        assert(s1 == mod_view(s, st1));
        assert(s2 == mod_view(s, st2));
        if !st1.out.dom().contains(md.ack_id) {
            assert(s2 == s1);
        } else if md.new_deadline.is_some() {
            lemma_redeadline(s1, md.ack_id, md.new_deadline.unwrap());
            assert(s2 == (SubView { out: s1.out.insert(md.ack_id, s1.out[md.ack_id].with_deadline(md.new_deadline.unwrap())), ..s1 }));
        } else {
            let lease = st1.out[md.ack_id];
            let one = seq![lease];
            lemma_ids_of(one);
            assert(one[0] == lease);
            assert(lease.id() == md.ack_id);
            assert(s2.out =~= s1.out.remove_keys(ids_of(one))) by {
                assert forall|id: AckId| ids_of(one).contains(id) <==> id == md.ack_id by {
                    if id == md.ack_id { assert(one[0].id() == id); }
                }
            }
            assert(msgs_of(st2.nacked) =~= msgs_of(st1.nacked).push(lease.msg()));
            assert(msgs_of(one) =~= seq![lease.msg()]);
            assert(s2.backlog =~= s1.backlog + msgs_of(one));
            assert(listed_ok(one, s1.out));
            lemma_requeue(s1, one, s2);
            assert forall|id: AckId| s2.out.dom().contains(id) implies id.v() < s.next && s2.out[id].id() == id by {
                assert(s1.out.dom().contains(id));
            }
        }
    }
}

// ======================================================================================
// histories: arbitrary finite sequences of actor turns
pub enum Ev {
    Post(Seq<Arc<TopicMessage>>),
    Pull(Seq<PulledMessage>),
    Ack(Set<AckId>),
    Modify(Seq<DeadlineModification>),
    Expire(int, Seq<PulledMessage>),
    Delete,
}
/// v is what some pull returns from state s (for some hand-out instant and ack deadline)
pub open spec fn pull_step_ok(v: Seq<PulledMessage>, s: SubView) -> bool {
    exists|now: int, d: nat| #[trigger] pulled_ok(v, s, v.len() as int, now, d)
}
/// one turn of the subscription actor, exactly as the handler contracts describe it
/// (Post carries the hypothesis that published ids are unique, which is C08/C09's id contract)
pub open spec fn step(s: SubView, e: Ev, t: SubView) -> bool {
    match e {
        Ev::Post(ms) => if s.deleted { t == s } else { fresh_batch(s, ms) && t == (SubView { backlog: s.backlog + ms, ..s }) },
        Ev::Pull(v) => if s.deleted { t == s && v.len() == 0 } else { pull_step_ok(v, s) && t == pull_view(s, v) },
        Ev::Ack(ks) => if s.deleted { t == s } else { t == (SubView { out: s.out.remove_keys(ks), ..s }) },
        Ev::Modify(mods) => if s.deleted { t == s } else { t == modify_view(s, mods) },
        Ev::Expire(now, exp) => expire_post(s, now, exp, t),
        Ev::Delete => delete_view_ok(s, t),
    }
}
pub open spec fn good(s: SubView) -> bool { uniq(s) && leases_inv(s.out, s.next) }

pub open spec fn posted_in(e: Ev, m: u64) -> bool {
    match e { Ev::Post(ms) => exists|k: int| 0 <= k < ms.len() && mid_of(#[trigger] ms[k]) == m, _ => false }
}
/// the turn acknowledges an outstanding lease of message m, or deletes the subscription
pub open spec fn released_in(s: SubView, e: Ev, m: u64) -> bool {
    match e {
        Ev::Ack(ks) => exists|a: AckId| ks.contains(a) && s.out.dom().contains(a) && mid_of((#[trigger] s.out[a]).msg()) == m,
        Ev::Delete => true,
        _ => false,
    }
}
pub open spec fn delivered_in(e: Ev, m: u64) -> bool {
    match e { Ev::Pull(v) => exists|i: int| 0 <= i < v.len() && mid_of((#[trigger] v[i]).msg()) == m, _ => false }
}

/// one-step lemma: invariants are kept, nothing appears except by post, nothing disappears except by ack/delete,
/// a delivered message was pending
pub proof fn lemma_step(s: SubView, e: Ev, t: SubView)
    requires good(s), step(s, e, t)
    ensures
        good(t),
        forall|m: u64| live(t, m) ==> live(s, m) || posted_in(e, m),
        forall|m: u64| live(s, m) && !released_in(s, e, m) ==> live(t, m),
        forall|m: u64| delivered_in(e, m) ==> in_backlog(s, m) && !s.deleted,
{
    match e {
        Ev::Post(ms) => { if !s.deleted { lemma_post(s, ms); } }
        Ev::Pull(v) => {
            if !s.deleted {
                let (now, d) = choose|now: int, d: nat| #[trigger] pulled_ok(v, s, v.len() as int, now, d);
                lemma_pull(s, v, v.len() as int, now, d);
                assert forall|m: u64| delivered_in(e, m) implies in_backlog(s, m) by {
                    let i = choose|i: int| 0 <= i < v.len() && mid_of((#[trigger] v[i]).msg()) == m;
                    assert(v[i].msg() == s.backlog[i]);
                }
            }
        }
        Ev::Ack(ks) => { if !s.deleted { lemma_ack(s, ks); } }
        Ev::Modify(mods) => { if !s.deleted { lemma_modify(s, mods); } }
        Ev::Expire(now, exp) => {
            lemma_expire_is_requeue(s, now, exp, t);
            lemma_requeue(s, exp, t);
            assert forall|id: AckId| t.out.dom().contains(id) implies id.v() < t.next && t.out[id].id() == id by {
                assert(s.out.dom().contains(id));
            }
        }
        Ev::Delete => {
            if t == (SubView { backlog: Seq::empty(), out: Map::empty(), next: s.next, deleted: true }) {
                assert forall|m: u64| !live(t, m) by {}
            } else if !(s.deleted && t == s) {
                assert(t == (SubView { deleted: true, ..s }));
                assert(t.backlog == s.backlog && t.out == s.out);
                assert forall|m: u64| live(t, m) <==> live(s, m) by {
                    assert(in_backlog(t, m) <==> in_backlog(s, m));
                    assert(in_leases(t, m) <==> in_leases(s, m));
                }
            }
        }
    }
}

pub open spec fn valid_trace(tr: Seq<SubView>, evs: Seq<Ev>) -> bool {
    &&& tr.len() == evs.len() + 1
    &&& forall|k: int| 0 <= k < evs.len() ==> step(#[trigger] tr[k], evs[k], tr[k + 1])
}
pub proof fn lemma_trace_good(tr: Seq<SubView>, evs: Seq<Ev>, k: int)
    requires valid_trace(tr, evs), good(tr[0]), 0 <= k < tr.len()
    ensures good(tr[k])
    decreases k
{
    if k > 0 {
        lemma_trace_good(tr, evs, k - 1);
        lemma_step(tr[k - 1], evs[k - 1], tr[k]);
    }
}
/// C02 (acknowledgement is final): once a turn acknowledged an outstanding lease of m, then - as long as m is not
/// published again (ids are unique) - m is never held again by the subscription and no later pull returns it.
pub proof fn lemma_ack_final(tr: Seq<SubView>, evs: Seq<Ev>, k: int, j: int, m: u64)
    requires
        valid_trace(tr, evs), good(tr[0]),
        0 <= k < j < tr.len(),
        !tr[k].deleted,
        (match evs[k] { Ev::Ack(ks) => exists|a: AckId| ks.contains(a) && tr[k].out.dom().contains(a) && mid_of((#[trigger] tr[k].out[a]).msg()) == m, _ => false }),
        forall|i: int| k < i < evs.len() ==> !posted_in(#[trigger] evs[i], m),
    ensures
        !live(tr[j], m),
        j < evs.len() ==> !delivered_in(evs[j], m),
    decreases j - k
{
    lemma_trace_good(tr, evs, j - 1);
    if j == k + 1 {
        lemma_trace_good(tr, evs, k);
        match evs[k] {
            Ev::Ack(ks) => {
                lemma_ack(tr[k], ks);
                let a = choose|a: AckId| ks.contains(a) && tr[k].out.dom().contains(a) && mid_of((#[trigger] tr[k].out[a]).msg()) == m;
            }
            _ => {}
        }
    } else {
        lemma_ack_final(tr, evs, k, j - 1, m);
        lemma_step(tr[j - 1], evs[j - 1], tr[j]);
    }
    if j < evs.len() {
        lemma_trace_good(tr, evs, j);
        lemma_step(tr[j], evs[j], tr[j + 1]);
    }
}
/// C01 (no loss inside a subscription): a message held at turn k is still held at turn j unless a turn in between
/// acknowledged a lease of it or deleted the subscription.
pub proof fn lemma_held_until_released(tr: Seq<SubView>, evs: Seq<Ev>, k: int, j: int, m: u64)
    requires
        valid_trace(tr, evs), good(tr[0]),
        0 <= k <= j < tr.len(),
        live(tr[k], m),
        forall|i: int| k <= i < j ==> !released_in(#[trigger] tr[i], evs[i], m),
    ensures live(tr[j], m)
    decreases j - k
{
    if j > k {
        lemma_held_until_released(tr, evs, k, j - 1, m);
        lemma_trace_good(tr, evs, j - 1);
        lemma_step(tr[j - 1], evs[j - 1], tr[j]);
    }
}
/// C01 (no spurious delivery): a message delivered at turn j was posted to this subscription at an earlier turn
/// (or was already held at the start of the history).
pub proof fn lemma_delivered_was_posted(tr: Seq<SubView>, evs: Seq<Ev>, j: int, m: u64)
    requires valid_trace(tr, evs), good(tr[0]), 0 <= j < evs.len(), delivered_in(evs[j], m)
    ensures live(tr[0], m) || exists|i: int| 0 <= i < j && posted_in(#[trigger] evs[i], m)
{
    lemma_trace_good(tr, evs, j);
    lemma_step(tr[j], evs[j], tr[j + 1]);
    assert(live(tr[j], m));
    lemma_live_was_posted(tr, evs, j, m);
}
pub proof fn lemma_live_was_posted(tr: Seq<SubView>, evs: Seq<Ev>, j: int, m: u64)
    requires valid_trace(tr, evs), good(tr[0]), 0 <= j < tr.len(), live(tr[j], m)
    ensures live(tr[0], m) || exists|i: int| 0 <= i < j && posted_in(#[trigger] evs[i], m)
    decreases j
{
    if j > 0 {
        lemma_trace_good(tr, evs, j - 1);
        lemma_step(tr[j - 1], evs[j - 1], tr[j]);
        if live(tr[j - 1], m) {
            lemma_live_was_posted(tr, evs, j - 1, m);
            if !live(tr[0], m) {
                let i = choose|i: int| 0 <= i < j - 1 && posted_in(#[trigger] evs[i], m);
                assert(0 <= i < j && posted_in(evs[i], m));
            }
        } else {
            assert(posted_in(evs[j - 1], m));
        }
    }
}
/// C03 (exclusive lease): in every reachable state a leased message is not in the backlog, hence no pull can hand it
/// out; and a message is leased at most once at a time.
pub proof fn lemma_exclusive(tr: Seq<SubView>, evs: Seq<Ev>, j: int, a: AckId)
    requires valid_trace(tr, evs), good(tr[0]), 0 <= j < tr.len(), tr[j].out.dom().contains(a)
    ensures
        !in_backlog(tr[j], mid_of(tr[j].out[a].msg())),
        forall|b: AckId| tr[j].out.dom().contains(b) && b != a ==> mid_of(tr[j].out[b].msg()) != mid_of(tr[j].out[a].msg()),
        j < evs.len() ==> !delivered_in(evs[j], mid_of(tr[j].out[a].msg())),
{
    lemma_trace_good(tr, evs, j);
    let s = tr[j];
    let m = mid_of(s.out[a].msg());
    if in_backlog(s, m) {
        let i = choose|i: int| 0 <= i < s.backlog.len() && mid_of(#[trigger] s.backlog[i]) == m;
        assert(mid_of(s.backlog[i]) != mid_of(s.out[a].msg()));
    }
    if j < evs.len() {
        lemma_step(tr[j], evs[j], tr[j + 1]);
    }
}

// ---- link between the handler contracts (layer 1) and the step relation (layer 2) ---------------------
/// what `receive` guarantees for one mailbox request is a `step` (for posts: under the unique-id hypothesis)
pub proof fn lemma_turn_is_step(s: SubView, request: SubscriptionRequest, t: SubView, d: nat)
    requires
        turn_ok(s, request, t, d),
        (match request { SubscriptionRequest::PostMessages { messages } => fresh_batch(s, messages@), _ => true }),
    ensures exists|e: Ev| step(s, e, t)
{
    match request {
        SubscriptionRequest::PostMessages { messages } => { assert(step(s, Ev::Post(messages@), t)); }
        SubscriptionRequest::GetInfo { responder } => { assert(s.out.remove_keys(Set::<AckId>::empty()) =~= s.out); assert(step(s, Ev::Ack(Set::<AckId>::empty()), t)); }
        SubscriptionRequest::PullMessages { max_count, responder } => {
            if s.deleted { assert(step(s, Ev::Pull(Seq::<PulledMessage>::empty()), t)); } else {
                let v = choose|v: Seq<PulledMessage>| pull_result_ok(v, s, max_count, d) && t == pull_view(s, v);
                let now = choose|now: Instant| pulled_deadlines(v, now.v(), d);
                assert(pulled_ok(v, s, v.len() as int, now.v(), d));
                assert(pull_step_ok(v, s));
                assert(step(s, Ev::Pull(v), t));
            }
        }
        SubscriptionRequest::AcknowledgeMessages { ack_ids, responder } => { assert(step(s, Ev::Ack(ack_ids@.to_set()), t)); }
        SubscriptionRequest::ModifyDeadline { deadline_modifications, responder } => { assert(step(s, Ev::Modify(deadline_modifications@), t)); }
        SubscriptionRequest::Delete { responder } => {
            assert(step(s, Ev::Delete, t));
        }
        SubscriptionRequest::GetStats { responder } => { assert(s.out.remove_keys(Set::<AckId>::empty()) =~= s.out); assert(step(s, Ev::Ack(Set::<AckId>::empty()), t)); }
    }
}
