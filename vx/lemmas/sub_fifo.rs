// ======================================================================================
// layer 2, C08: on one subscription the FIRST deliveries of messages occur in post order, the messages of one
// post (= one Publish request, TopicActor::publish sends one PostMessages per request) staying contiguous and in
// request order; only redeliveries may appear out of order.
//
// Statement proved for every finite history of actor turns (lemma_fifo): the sequence of first deliveries
// (every pull's batch with the already-delivered messages filtered out, batches concatenated in turn order) is a
// PREFIX of the sequence of accepted posts (batches concatenated in turn order); and as long as the subscription
// is not deleted, what remains of the posted sequence is exactly the never-delivered part of the backlog, in order.
// Hypotheses: the history starts empty, and no message id is posted twice (the id contract of C08/C09, discharged
// for one topic in bundle B4: lemma_mid_injective / lemma_mid_monotone + TopicActor::publish_ids).

/// message m was returned by a pull at some turn before turn j
pub open spec fn was_delivered(evs: Seq<Ev>, j: int, m: u64) -> bool {
    exists|i: int| 0 <= i < j && i < evs.len() && delivered_in(#[trigger] evs[i], m)
}
/// the messages of b that were never delivered before turn j, in the order of b
pub open spec fn nd(b: Seq<Arc<TopicMessage>>, evs: Seq<Ev>, j: int) -> Seq<Arc<TopicMessage>>
    decreases b.len()
{
    if b.len() == 0 { Seq::empty() } else {
        let r = nd(b.drop_last(), evs, j);
        if was_delivered(evs, j, mid_of(b.last())) { r } else { r.push(b.last()) }
    }
}
pub proof fn lemma_nd_add(a: Seq<Arc<TopicMessage>>, b: Seq<Arc<TopicMessage>>, evs: Seq<Ev>, j: int)
    ensures nd(a + b, evs, j) == nd(a, evs, j) + nd(b, evs, j)
    decreases b.len()
{
    if b.len() == 0 {
        assert(a + b =~= a);
        assert(nd(a, evs, j) + nd(b, evs, j) =~= nd(a, evs, j));
    } else {
        assert((a + b).drop_last() =~= a + b.drop_last());
        assert((a + b).last() == b.last());
        lemma_nd_add(a, b.drop_last(), evs, j);
        let ra = nd(a, evs, j);
        let rb = nd(b.drop_last(), evs, j);
        if was_delivered(evs, j, mid_of(b.last())) { } else {
            assert((ra + rb).push(b.last()) =~= ra + rb.push(b.last()));
        }
    }
}
/// nd depends only on which elements of b count as delivered
pub proof fn lemma_nd_same(b: Seq<Arc<TopicMessage>>, evs: Seq<Ev>, j: int, j2: int)
    requires forall|k: int| 0 <= k < b.len() ==> was_delivered(evs, j, mid_of(#[trigger] b[k])) == was_delivered(evs, j2, mid_of(b[k]))
    ensures nd(b, evs, j) == nd(b, evs, j2)
    decreases b.len()
{
    if b.len() > 0 {
        let c = b.drop_last();
        assert forall|k: int| 0 <= k < c.len() implies was_delivered(evs, j, mid_of(#[trigger] c[k])) == was_delivered(evs, j2, mid_of(c[k])) by {
            assert(c[k] == b[k]);
        }
        lemma_nd_same(c, evs, j, j2);
        assert(b.last() == b[b.len() - 1]);
    }
}
pub proof fn lemma_nd_all(b: Seq<Arc<TopicMessage>>, evs: Seq<Ev>, j: int)
    requires forall|k: int| 0 <= k < b.len() ==> was_delivered(evs, j, mid_of(#[trigger] b[k]))
    ensures nd(b, evs, j) == Seq::<Arc<TopicMessage>>::empty()
    decreases b.len()
{
    if b.len() > 0 {
        let c = b.drop_last();
        assert forall|k: int| 0 <= k < c.len() implies was_delivered(evs, j, mid_of(#[trigger] c[k])) by { assert(c[k] == b[k]); }
        lemma_nd_all(c, evs, j);
        assert(b.last() == b[b.len() - 1]);
    }
}
pub proof fn lemma_nd_none(b: Seq<Arc<TopicMessage>>, evs: Seq<Ev>, j: int)
    requires forall|k: int| 0 <= k < b.len() ==> !was_delivered(evs, j, mid_of(#[trigger] b[k]))
    ensures nd(b, evs, j) == b
    decreases b.len()
{
    if b.len() > 0 {
        let c = b.drop_last();
        assert forall|k: int| 0 <= k < c.len() implies !was_delivered(evs, j, mid_of(#[trigger] c[k])) by { assert(c[k] == b[k]); }
        lemma_nd_none(c, evs, j);
        assert(b.last() == b[b.len() - 1]);
        assert(c.push(b.last()) =~= b);
    } else {
        assert(b =~= Seq::<Arc<TopicMessage>>::empty());
    }
}

/// first deliveries up to (excluding) turn j, in delivery order
pub open spec fn firsts(evs: Seq<Ev>, j: int) -> Seq<Arc<TopicMessage>>
    decreases j
{
    if j <= 0 { Seq::empty() } else {
        firsts(evs, j - 1) + (match evs[j - 1] { Ev::Pull(v) => nd(msgs_of(v), evs, j - 1), _ => Seq::empty() })
    }
}
/// accepted posts up to (excluding) turn j, batches concatenated in turn order
pub open spec fn posts(tr: Seq<SubView>, evs: Seq<Ev>, j: int) -> Seq<Arc<TopicMessage>>
    decreases j
{
    if j <= 0 { Seq::empty() } else {
        posts(tr, evs, j - 1) + (match evs[j - 1] { Ev::Post(ms) => if tr[j - 1].deleted { Seq::empty() } else { ms }, _ => Seq::empty() })
    }
}
pub open spec fn prefix_of(a: Seq<Arc<TopicMessage>>, b: Seq<Arc<TopicMessage>>) -> bool {
    a.len() <= b.len() && forall|i: int| 0 <= i < a.len() ==> a[i] == b[i]
}
/// no message id is posted by two different turns
pub open spec fn unique_posts(evs: Seq<Ev>) -> bool {
    forall|i: int, j: int, m: u64| 0 <= i < j < evs.len() && #[trigger] posted_in(evs[i], m) ==> !#[trigger] posted_in(evs[j], m)
}
pub open spec fn fifo_inv(tr: Seq<SubView>, evs: Seq<Ev>, j: int) -> bool {
    // every leased message has been delivered
    &&& forall|a: AckId| tr[j].out.dom().contains(a) ==> was_delivered(evs, j, mid_of((#[trigger] tr[j].out[a]).msg()))
    // posted = first-delivered ++ never-delivered part of the backlog
    &&& !tr[j].deleted ==> posts(tr, evs, j) == firsts(evs, j) + nd(tr[j].backlog, evs, j)
    &&& prefix_of(firsts(evs, j), posts(tr, evs, j))
}

/// every lease of modify_view(s, mods) is a lease of s with the same message, and the messages appended to the
/// backlog are messages of leases of s
pub proof fn lemma_modify_shape(s: SubView, mods: Seq<DeadlineModification>)
    ensures
        forall|a: AckId| modify_view(s, mods).out.dom().contains(a)
            ==> s.out.dom().contains(a) && (#[trigger] modify_view(s, mods).out[a]).msg() == s.out[a].msg(),
        exists|extra: Seq<Arc<TopicMessage>>| modify_view(s, mods).backlog == s.backlog + extra
            && forall|k: int| 0 <= k < extra.len() ==> in_leases(s, mid_of(#[trigger] extra[k])),
    decreases mods.len()
{
    let init = ModState { out: s.out, nacked: Seq::empty() };
    lemma_mods_shape(s, init, mods);
    let st = apply_mods(init, mods);
    let extra = msgs_of(st.nacked);
    assert(modify_view(s, mods).backlog == s.backlog + extra);
    assert forall|k: int| 0 <= k < extra.len() implies in_leases(s, mid_of(#[trigger] extra[k])) by {
        let p = st.nacked[k];
        assert(extra[k] == p.msg());
        assert(from_lease(s, p));
        let a = choose|a: AckId| s.out.dom().contains(a) && (#[trigger] s.out[a]).msg() == p.msg();
        assert(mid_of(s.out[a].msg()) == mid_of(extra[k]));
    }
}
/// p carries the message of some lease of s
pub open spec fn from_lease(s: SubView, p: PulledMessage) -> bool {
    exists|a: AckId| s.out.dom().contains(a) && (#[trigger] s.out[a]).msg() == p.msg()
}
pub proof fn lemma_mods_shape(s: SubView, init: ModState, mods: Seq<DeadlineModification>)
    requires init == (ModState { out: s.out, nacked: Seq::empty() })
    ensures
        forall|a: AckId| apply_mods(init, mods).out.dom().contains(a)
            ==> s.out.dom().contains(a) && (#[trigger] apply_mods(init, mods).out[a]).msg() == s.out[a].msg(),
        forall|k: int| 0 <= k < apply_mods(init, mods).nacked.len() ==> from_lease(s, #[trigger] apply_mods(init, mods).nacked[k]),
    decreases mods.len()
{
    if mods.len() > 0 {
        lemma_mods_shape(s, init, mods.drop_last());
        let st1 = apply_mods(init, mods.drop_last());
        let md = mods.last();
        let st2 = apply_mod(st1, md);
        assert(apply_mods(init, mods) == st2);
        if !st1.out.dom().contains(md.ack_id) {
            assert(st2 == st1);
        } else if md.new_deadline.is_some() {
            assert(st1.out[md.ack_id].with_deadline(md.new_deadline.unwrap()).msg() == st1.out[md.ack_id].msg());
            assert(st2.nacked == st1.nacked);
        } else {
            assert forall|k: int| 0 <= k < st2.nacked.len() implies from_lease(s, #[trigger] st2.nacked[k]) by {
                if k < st1.nacked.len() {
                    assert(st2.nacked[k] == st1.nacked[k]);
                } else {
                    assert(st2.nacked[k] == st1.out[md.ack_id]);
                    assert(s.out.dom().contains(md.ack_id) && s.out[md.ack_id].msg() == st1.out[md.ack_id].msg());
                }
            }
        }
    } else {
        assert(apply_mods(init, mods) == init);
    }
}

/// delivered-ness grows only by the pull of the turn
pub proof fn lemma_wd_step(evs: Seq<Ev>, j: int, m: u64)
    requires 0 < j <= evs.len()
    ensures was_delivered(evs, j, m) <==> (was_delivered(evs, j - 1, m) || delivered_in(evs[j - 1], m))
{
    if was_delivered(evs, j, m) {
        let i = choose|i: int| 0 <= i < j && i < evs.len() && delivered_in(#[trigger] evs[i], m);
        if i < j - 1 { assert(was_delivered(evs, j - 1, m)); }
    }
    if was_delivered(evs, j - 1, m) {
        let i = choose|i: int| 0 <= i < j - 1 && i < evs.len() && delivered_in(#[trigger] evs[i], m);
        assert(0 <= i < j && delivered_in(evs[i], m));
    }
    if delivered_in(evs[j - 1], m) { assert(0 <= j - 1 < j && delivered_in(evs[j - 1], m)); }
}

pub open spec fn fifo_step_pre(tr: Seq<SubView>, evs: Seq<Ev>, j: int) -> bool {
    &&& valid_trace(tr, evs) && 0 < j < tr.len()
    &&& good(tr[j - 1]) && fifo_inv(tr, evs, j - 1)
}
/// with unique post ids and an empty start, a message posted at turn j-1 was never delivered before
pub proof fn lemma_posted_not_delivered(tr: Seq<SubView>, evs: Seq<Ev>, j: int, m: u64)
    requires valid_trace(tr, evs), 0 < j < tr.len(), good(tr[0]),
        tr[0].backlog.len() == 0, tr[0].out.dom() =~= Set::<AckId>::empty(), unique_posts(evs),
        posted_in(evs[j - 1], m),
    ensures !was_delivered(evs, j - 1, m)
{
    if was_delivered(evs, j - 1, m) {
        let i = choose|i: int| 0 <= i < j - 1 && i < evs.len() && delivered_in(#[trigger] evs[i], m);
        lemma_delivered_was_posted(tr, evs, i, m);
        assert(!live(tr[0], m)) by {
            if in_backlog(tr[0], m) { }
            if in_leases(tr[0], m) { }
        }
        let i2 = choose|i2: int| 0 <= i2 < i && posted_in(#[trigger] evs[i2], m);
        assert(0 <= i2 < j - 1 < evs.len() && posted_in(evs[i2], m));
        assert(!posted_in(evs[j - 1], m));
    }
}
pub proof fn lemma_fifo_post(tr: Seq<SubView>, evs: Seq<Ev>, j: int, ms: Seq<Arc<TopicMessage>>)
    requires fifo_step_pre(tr, evs, j), evs[j - 1] == Ev::Post(ms), good(tr[0]),
        tr[0].backlog.len() == 0, tr[0].out.dom() =~= Set::<AckId>::empty(), unique_posts(evs),
    ensures fifo_inv(tr, evs, j)
{
    let s = tr[j - 1]; let t = tr[j]; let e = evs[j - 1];
    assert(step(s, e, t));
    assert forall|k: int| 0 <= k < ms.len() implies !was_delivered(evs, j - 1, mid_of(#[trigger] ms[k])) by {
        assert(posted_in(e, mid_of(ms[k])));
        lemma_posted_not_delivered(tr, evs, j, mid_of(ms[k]));
    }
    lemma_fifo_post_core(tr, evs, j, ms);
}
pub proof fn lemma_fifo_post_core(tr: Seq<SubView>, evs: Seq<Ev>, j: int, ms: Seq<Arc<TopicMessage>>)
    requires 0 < j < tr.len(), tr.len() == evs.len() + 1, fifo_inv(tr, evs, j - 1), evs[j - 1] == Ev::Post(ms),
        tr[j - 1].deleted ==> tr[j] == tr[j - 1],
        !tr[j - 1].deleted ==> tr[j] == (SubView { backlog: tr[j - 1].backlog + ms, ..tr[j - 1] }),
        forall|k: int| 0 <= k < ms.len() ==> !was_delivered(evs, j - 1, mid_of(#[trigger] ms[k])),
    ensures fifo_inv(tr, evs, j)
{
    let s = tr[j - 1]; let t = tr[j]; let e = evs[j - 1];
    assert forall|m: u64| was_delivered(evs, j, m) <==> was_delivered(evs, j - 1, m) by { lemma_wd_step(evs, j, m); }
    let f0 = firsts(evs, j - 1);
    let p0 = posts(tr, evs, j - 1);
    assert(firsts(evs, j) =~= f0);
    if !s.deleted {
        assert(posts(tr, evs, j) == p0 + ms);
        lemma_nd_add(s.backlog, ms, evs, j);
        lemma_nd_same(s.backlog, evs, j, j - 1);
        lemma_nd_none(ms, evs, j);
        assert(p0 + ms =~= f0 + (nd(s.backlog, evs, j - 1) + ms));
        assert(posts(tr, evs, j) =~= firsts(evs, j) + nd(t.backlog, evs, j));
    } else {
        assert(posts(tr, evs, j) =~= p0);
    }
    assert forall|a: AckId| t.out.dom().contains(a) implies was_delivered(evs, j, mid_of((#[trigger] t.out[a]).msg())) by {
        assert(t.out[a] == s.out[a]);
    }
    lemma_prefix_close(tr, evs, j);
}
/// the prefix clause of fifo_inv(j) follows from the equation while not deleted, and from frozen sequences afterwards
pub proof fn lemma_prefix_close(tr: Seq<SubView>, evs: Seq<Ev>, j: int)
    requires 0 < j < tr.len(),
        !tr[j].deleted ==> posts(tr, evs, j) == firsts(evs, j) + nd(tr[j].backlog, evs, j),
        tr[j].deleted ==> posts(tr, evs, j) == posts(tr, evs, j - 1) && firsts(evs, j) == firsts(evs, j - 1),
        prefix_of(firsts(evs, j - 1), posts(tr, evs, j - 1)),
    ensures prefix_of(firsts(evs, j), posts(tr, evs, j))
{
}
pub proof fn lemma_fifo_pull(tr: Seq<SubView>, evs: Seq<Ev>, j: int, v: Seq<PulledMessage>)
    requires fifo_step_pre(tr, evs, j), evs[j - 1] == Ev::Pull(v)
    ensures fifo_inv(tr, evs, j)
{
    let s = tr[j - 1]; let t = tr[j]; let e = evs[j - 1];
    assert(step(s, e, t));
    assert forall|m: u64| was_delivered(evs, j, m) <==> (was_delivered(evs, j - 1, m) || delivered_in(e, m)) by { lemma_wd_step(evs, j, m); }
    let f0 = firsts(evs, j - 1);
    let p0 = posts(tr, evs, j - 1);
    assert(posts(tr, evs, j) =~= p0);
    if !s.deleted {
        let (now, d) = choose|now: int, d: nat| #[trigger] pulled_ok(v, s, v.len() as int, now, d);
        lemma_pull(s, v, v.len() as int, now, d);
        lemma_out_after_pull(s, v);
        let n = v.len() as int;
        let pre = msgs_of(v);
        assert(s.backlog =~= pre + t.backlog);
        lemma_nd_add(pre, t.backlog, evs, j - 1);
        assert(firsts(evs, j) == f0 + nd(pre, evs, j - 1));
        assert forall|k: int| 0 <= k < t.backlog.len()
            implies was_delivered(evs, j, mid_of(#[trigger] t.backlog[k])) == was_delivered(evs, j - 1, mid_of(t.backlog[k])) by {
            let m = mid_of(t.backlog[k]);
            assert(t.backlog[k] == s.backlog[k + n]);
            if delivered_in(e, m) {
                let i = choose|i: int| 0 <= i < v.len() && mid_of((#[trigger] v[i]).msg()) == m;
                assert(v[i].msg() == s.backlog[i]);
                assert(mid_of(s.backlog[i]) != mid_of(s.backlog[k + n]));
            }
        }
        lemma_nd_same(t.backlog, evs, j, j - 1);
        assert(p0 =~= (f0 + nd(pre, evs, j - 1)) + nd(t.backlog, evs, j - 1));
        assert forall|a: AckId| t.out.dom().contains(a) implies was_delivered(evs, j, mid_of((#[trigger] t.out[a]).msg())) by {
            if s.out.dom().contains(a) {
                assert(t.out[a] == s.out[a]);
            } else {
                let i = choose|i: int| 0 <= i < v.len() && (#[trigger] v[i]).id() == a;
                assert(t.out[v[i].id()] == v[i]);
                assert(delivered_in(e, mid_of(v[i].msg())));
            }
        }
    } else {
        assert(msgs_of(v) =~= Seq::<Arc<TopicMessage>>::empty());
        assert(firsts(evs, j) =~= f0);
        assert forall|a: AckId| t.out.dom().contains(a) implies was_delivered(evs, j, mid_of((#[trigger] t.out[a]).msg())) by {
            assert(t.out[a] == s.out[a]);
        }
    }
    lemma_prefix_close(tr, evs, j);
}
/// Ack, Modify, Expire, Delete: nothing is delivered or posted; only already-delivered messages may re-enter the backlog
pub proof fn lemma_fifo_other(tr: Seq<SubView>, evs: Seq<Ev>, j: int)
    requires fifo_step_pre(tr, evs, j), !(evs[j - 1] is Post), !(evs[j - 1] is Pull)
    ensures fifo_inv(tr, evs, j)
{
    let s = tr[j - 1]; let t = tr[j]; let e = evs[j - 1];
    assert(step(s, e, t));
    assert forall|m: u64| was_delivered(evs, j, m) <==> (was_delivered(evs, j - 1, m) || delivered_in(e, m)) by { lemma_wd_step(evs, j, m); }
    assert(firsts(evs, j) =~= firsts(evs, j - 1));
    assert(posts(tr, evs, j) =~= posts(tr, evs, j - 1));
    match e {
        Ev::Ack(ks) => {
            if !s.deleted { lemma_nd_same(s.backlog, evs, j, j - 1); }
            assert forall|a: AckId| t.out.dom().contains(a) implies was_delivered(evs, j, mid_of((#[trigger] t.out[a]).msg())) by {
                assert(t.out[a] == s.out[a]);
            }
        }
        Ev::Modify(mods) => {
            if !s.deleted {
                lemma_modify_shape(s, mods);
                let extra = choose|extra: Seq<Arc<TopicMessage>>| t.backlog == s.backlog + extra
                    && forall|k: int| 0 <= k < extra.len() ==> in_leases(s, mid_of(#[trigger] extra[k]));
                lemma_requeue_nd(tr, evs, j, e, extra);
                assert forall|a: AckId| t.out.dom().contains(a) implies was_delivered(evs, j, mid_of((#[trigger] t.out[a]).msg())) by {
                    assert(t.out[a].msg() == s.out[a].msg());
                }
            } else {
                assert forall|a: AckId| t.out.dom().contains(a) implies was_delivered(evs, j, mid_of((#[trigger] t.out[a]).msg())) by {
                    assert(t.out[a] == s.out[a]);
                }
            }
        }
        Ev::Expire(now, exp) => {
            lemma_expire_is_requeue(s, now, exp, t);
            let extra = msgs_of(exp);
            assert forall|k: int| 0 <= k < extra.len() implies in_leases(s, mid_of(#[trigger] extra[k])) by {
                assert(s.out.dom().contains(exp[k].id()) && s.out[exp[k].id()] == exp[k]);
                assert(extra[k] == exp[k].msg());
            }
            if !s.deleted { lemma_requeue_nd(tr, evs, j, e, extra); }
            assert forall|a: AckId| t.out.dom().contains(a) implies was_delivered(evs, j, mid_of((#[trigger] t.out[a]).msg())) by {
                assert(t.out[a] == s.out[a]);
            }
        }
        Ev::Delete => {
            assert forall|a: AckId| t.out.dom().contains(a) implies was_delivered(evs, j, mid_of((#[trigger] t.out[a]).msg())) by {
                assert(s.out.dom().contains(a) && t.out[a] == s.out[a]);
            }
        }
        _ => {}
    }
    lemma_prefix_close(tr, evs, j);
}

/// C08 (first deliveries follow post order), for every finite history and every turn j
pub proof fn lemma_fifo(tr: Seq<SubView>, evs: Seq<Ev>, j: int)
    requires
        valid_trace(tr, evs), 0 <= j < tr.len(),
        tr[0].backlog.len() == 0, tr[0].out.dom() =~= Set::<AckId>::empty(),
        unique_posts(evs),
    ensures fifo_inv(tr, evs, j)
    decreases j
{
    assert(good(tr[0]));
    if j == 0 {
        assert(firsts(evs, 0) + nd(tr[0].backlog, evs, 0) =~= Seq::<Arc<TopicMessage>>::empty());
    } else {
        lemma_fifo(tr, evs, j - 1);
        lemma_trace_good(tr, evs, j - 1);
        match evs[j - 1] {
            Ev::Post(ms) => { lemma_fifo_post(tr, evs, j, ms); }
            Ev::Pull(v) => { lemma_fifo_pull(tr, evs, j, v); }
            _ => { lemma_fifo_other(tr, evs, j); }
        }
    }
}

/// a turn that only appends already-leased (hence already delivered) messages to the backlog and delivers nothing
/// keeps the never-delivered part of the backlog
pub proof fn lemma_requeue_nd(tr: Seq<SubView>, evs: Seq<Ev>, j: int, e: Ev, extra: Seq<Arc<TopicMessage>>)
    requires
        0 < j < tr.len(), tr.len() == evs.len() + 1,
        fifo_inv(tr, evs, j - 1),
        !tr[j - 1].deleted,
        tr[j].backlog == tr[j - 1].backlog + extra,
        forall|k: int| 0 <= k < extra.len() ==> in_leases(tr[j - 1], mid_of(#[trigger] extra[k])),
        e == evs[j - 1],
        forall|m: u64| !#[trigger] delivered_in(e, m),
    ensures nd(tr[j].backlog, evs, j) == nd(tr[j - 1].backlog, evs, j - 1)
{
    let s = tr[j - 1];
    assert forall|m: u64| was_delivered(evs, j, m) <==> was_delivered(evs, j - 1, m) by { lemma_wd_step(evs, j, m); }
    lemma_nd_add(s.backlog, extra, evs, j);
    lemma_nd_same(s.backlog, evs, j, j - 1);
    assert forall|k: int| 0 <= k < extra.len() implies was_delivered(evs, j, mid_of(#[trigger] extra[k])) by {
        let m = mid_of(extra[k]);
        let a = choose|a: AckId| s.out.dom().contains(a) && mid_of((#[trigger] s.out[a]).msg()) == m;
        assert(was_delivered(evs, j - 1, mid_of(s.out[a].msg())));
    }
    lemma_nd_all(extra, evs, j);
    assert(nd(s.backlog, evs, j) + Seq::<Arc<TopicMessage>>::empty() =~= nd(s.backlog, evs, j));
}
