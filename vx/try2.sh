#!/bin/sh
# dev helper that does not touch /verif/.work or /repo: assembles from /tmp/repo_clean into /tmp/vwork
B=${1:-B1}
mkdir -p /tmp/vwork
cd /verif && VERIF_REPO=${VERIF_REPO:-/tmp/repo_clean} python3 vx/extract.py vx/bundles/$B.rs -o /tmp/vwork/$B.rs || exit 2
cd /tmp/vwork && verus $B.rs --triggers-mode silent --multiple-errors 10 ${2:+--verify-function} $2 ${2:+--verify-root} 2>&1 | grep -v "^warning: unused\|^$" | grep -B0 -A${3:-14} "^error\|^verification\|^note" | head -${4:-150}
