#!/bin/sh
# dev helper: assemble + verify one bundle, print errors compactly
B=${1:-B1}
cd /verif && python3 vx/extract.py vx/bundles/$B.rs -o .work/$B.rs || exit 2
cd .work && verus $B.rs --triggers-mode silent --multiple-errors 10 ${2:+--verify-function} $2 ${2:+--verify-root} 2>&1 | grep -v "^warning: unused\|^$" | grep -B0 -A${3:-14} "^error\|^verification\|^note" | head -${4:-150}
