#!/usr/bin/env python3
"""vx/seedeval.py <seed dir> [--no-confirm] [--sandbox N]
--sandbox N: do not touch /repo or /verif: the patch is applied to the scratch worktree /tmp/eval_N/repo (HEAD of /repo)
and the checks run from a copy of the machinery in /tmp/eval_N/verif with VERIF_REPO pointing there (several
sandboxes can run side by side; used for regression sweeps over all kept seeds).
Confirms a seeded change (compiles, 42 tests pass, demonstration fails with / passes without the change) in a scratch
worktree under /tmp, then applies it to /repo, runs every claimed check, undoes it, and prints a JSON summary.
Nothing is ever committed to /repo."""
import json
import os
import subprocess
import sys
import glob
import shutil

HERE = os.path.dirname(os.path.dirname(os.path.abspath(__file__)))
PROPS = ["C01", "C02", "C03", "C04", "C05", "C08", "C09", "C10", "C11", "C13", "C15", "C17", "C18"]


def sh(cmd, cwd=None, timeout=1800, env=None):
    p = subprocess.run(cmd, shell=True, cwd=cwd, capture_output=True, text=True, timeout=timeout, env=env)
    return p.returncode, p.stdout + p.stderr


def main():
    d = os.path.abspath(sys.argv[1])
    confirm = "--no-confirm" not in sys.argv
    patch = os.path.join(d, "patch.diff")
    res = {"seed": d}
    env = dict(os.environ, CARGO_NET_OFFLINE="true")
    if confirm:
        wt = "/tmp/sv_" + os.path.basename(d)
        sh("git -C /repo worktree remove --force %s" % wt)
        rc, out = sh("git -C /repo worktree add -q %s HEAD" % wt)
        shutil.copytree("/repo/target", wt + "/target", dirs_exist_ok=True) if os.path.isdir("/repo/target") else None
        demos = [f for f in glob.glob(os.path.join(d, "*.rs"))]
        for f in demos:
            shutil.copy(f, os.path.join(wt, "tests", os.path.basename(f)))
        names = [os.path.splitext(os.path.basename(f))[0] for f in demos]
        targs = " ".join("--test %s" % n for n in names)
        # demonstration without the change
        rc0, out0 = sh("cargo test --offline %s 2>&1 | tail -40" % targs, cwd=wt, env=env)
        res["demo_without_change"] = "pass" if ("test result: ok" in out0 and "FAILED" not in out0) else "FAIL"
        rc, out = sh("git apply %s" % patch, cwd=wt)
        res["applies"] = rc == 0
        rc1, out1 = sh("cargo test --offline %s 2>&1 | tail -60" % targs, cwd=wt, env=env)
        res["demo_with_change"] = "fail" if ("FAILED" in out1 or "panicked" in out1) else ("COMPILE-ERROR" if "error[" in out1 or "could not compile" in out1 else "PASS")
        # the existing suite (without the demo files)
        for n in names:
            os.remove(os.path.join(wt, "tests", n + ".rs"))
        rc2, out2 = sh("cargo test --workspace --no-fail-fast --offline 2>&1 | grep -E 'test result|FAILED|error' ", cwd=wt, env=env)
        passed = sum(int(x.split(" passed")[0].split()[-1]) for x in out2.splitlines() if "test result" in x)
        failed = "FAILED" in out2 or "error" in out2
        if failed:   # timing flake: once more
            rc2, out2 = sh("cargo test --workspace --no-fail-fast --offline 2>&1 | grep -E 'test result|FAILED|error' ", cwd=wt, env=env)
            passed = sum(int(x.split(" passed")[0].split()[-1]) for x in out2.splitlines() if "test result" in x)
            failed = "FAILED" in out2 or "error" in out2
        res["suite_with_change"] = "%d passed%s" % (passed, ", FAILURES" if failed else "")
        sh("git -C /repo worktree remove --force %s" % wt)
    # ---- run the checks with the change applied: on /repo itself, or in a sandbox copy
    sandbox = None
    if "--sandbox" in sys.argv:
        sandbox = "/tmp/eval_" + sys.argv[sys.argv.index("--sandbox") + 1]
    repo, here = "/repo", HERE
    if sandbox:
        repo, here = sandbox + "/repo", sandbox + "/verif"
        os.makedirs(sandbox, exist_ok=True)
        if not os.path.isdir(repo):
            sh("git -C /repo worktree add -q --detach %s HEAD" % repo)
        sh("git -C %s checkout -q -- . && git -C %s clean -fdq tests src" % (repo, repo))
        sh("mkdir -p %s && rsync -a --delete --exclude .work --exclude evidence --exclude .git %s/ %s/ && mkdir -p %s/evidence" % (here, HERE, here, here))
    rc, out = sh("git -C %s status --porcelain" % repo)
    if out.strip():
        print("refusing: %s is not clean:\n" % repo + out)
        sys.exit(2)
    rc, out = sh("git -C %s apply %s" % (repo, patch))
    if rc != 0:
        print("patch does not apply to %s: " % repo + out)
        sys.exit(2)
    verdicts = {}
    try:
        for p in PROPS:
            rc, out = sh("./check %s --tier quick" % p, cwd=here, timeout=900, env=dict(os.environ, VERIF_REPO=repo))
            lines = [l for l in out.splitlines() if l.startswith(("VIOLATION", "UNDECIDED", "KNOWN-FINDING", "failed obligation"))]
            verdicts[p] = {"exit": rc, "lines": lines[:8]}
    finally:
        sh("git -C %s checkout -- ." % repo)
    res["checks"] = {p: ("VIOLATION" if v["exit"] == 1 else "UNDECIDED" if v["exit"] == 2 else "ok") for p, v in verdicts.items()}
    res["details"] = {p: v["lines"] for p, v in verdicts.items() if v["exit"] != 0}
    print(json.dumps(res, indent=1))


if __name__ == "__main__":
    main()
