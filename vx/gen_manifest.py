#!/usr/bin/env python3
"""writes /verif/MANIFEST.json and /verif/vx/assumptions.json from the tables below"""
import sys
import json, os
HERE = os.path.dirname(os.path.dirname(os.path.abspath(__file__)))

TECH = "contract-based deductive verification of the real code: Verus (Z3) discharges requires/ensures/loop invariants spliced into functions extracted mechanically from /repo on every run; layer-2 history lemmas over the contracts; vacuity canary pass; labelled bounded stand-ins (searches on the real crate against property-level oracles) only for the async glue no contract reaches"

CLAIMS = {
 "C01": ("proof of the sequential core (scoped)",
         "Proved for all inputs and unbounded queues: every subscription-actor handler (post/pull/ack/modify/expire/delete/receive) satisfies a two-state contract over the view (backlog, leases, next ack id, deleted); a posted message stays in backlog+leases until a lease of it is acked or the subscription is deleted, nothing enters except through post; topic actor attach/remove/delete are exact map operations.",
         "NOT covered (trusted A-GLUE): the fan-out of publish_messages to every attached subscription (async move + JoinSet), FIFO mailboxes, races between publish and create/delete, liveness of redelivery (needs the timer and a consumer). Messages::append is an assumed contract (Iterator::size_hint cannot be specified in Verus), cross-checked bounded. The clause 'every handed-out message is tracked as outstanding' of pull_messages carries C01/C04 (a message held nowhere can never be redelivered)."),
 "C02": ("proof",
         "Proved: OutstandingMessageTracker::remove and SubscriptionActor::acknowledge_messages remove exactly the named live leases from both tracker structures (representation invariant wf), leave backlog, counter and every other lease unchanged, unknown/stale/repeated ids are no-ops; the two unsafe unwrap_unchecked in take_expired are discharged from wf (no stale expiry key can resurrect an acked message); ack-id parsing is total.",
         "The unary Acknowledge handler (async fn, whole body, bundle B2) is under contract: OK means the subscription the name denotes was handed exactly the request's ack ids in order; a malformed ack id or name is INVALID_ARGUMENT, an absent name NOT_FOUND. The Subscription handle methods (pull / post / acknowledge / modify / delete; async, bundle B1) are under contract: OK means exactly that request with the caller's arguments was put into the actor's mailbox. Trusted: the mailbox itself (tokio mpsc / oneshot), what awaiting the reply yields, and that streaming acks reach the handler (async glue), other subscriptions' copies live in other actor values (Rust ownership), derived Ord/Hash of AckId/AckDeadline (A-DERIVE, validated by Kani), BTreeSet::first/pop_first specs."),
 "C03": ("proof",
         "Proved: pull_messages moves the first n backlog messages into the lease table within one actor turn, with fresh consecutive ack ids (all ids in use are below the counter, the counter strictly increases); the only exits from the lease table are ack, modify(None), expiry with deadline <= now and delete.",
         "Trusted: one actor task drains the mailbox, so turns do not interleave (tokio mpsc + single task, A-GLUE); fewer than 2^64 deliveries per subscription (A-ARITH)."),
 "C04": ("proof",
         "Proved for all instants and all i32 ack_deadline_seconds: AckDeadline::new(t) lies in [t, t + 1 s) (the code rounds to a 100 ms grid; the contract only demands the statement's sub-second slack) (after fix d51d4eb; the pinned tree was up to 999 ns early: known_findings.jsonl), pull gives deadline = now + D, D = max(seconds, 10) s, take_expired returns exactly the leases with deadline <= now, next_expiration is the minimum deadline, handle_expired_messages requeues exactly those.",
         "Trusted: that tokio wakes the actor at sleep_until(min deadline) and the Notify re-arming in poll_next_expired (async, A-GLUE); Instant stand-in = u64 nanoseconds, EPOCH not later than any now() (A-STUB); clock below 2^60 ns (A-ARITH)."),
 "C05": ("proof",
         "Proved: seconds -> Option<Duration> classification over all i32 (<0 INVALID_ARGUMENT, 0 nack, 1..599, >=600 capped); per-pair body of parse_deadline_modifications (lifted region) yields exactly the modification with deadline in [now+N, now+N+100ms) or the error, and the whole function returns one such modification per (ack id, seconds) pair in request order or fails as a whole with INVALID_ARGUMENT; OutstandingMessageTracker::modify equals the fold of the per-modification spec in request order (old expiry key removed, new inserted, nacked lease returned), modify_deadline appends the nacked messages to the backlog in the same turn; unknown ids are skipped.",
         "The zip/map/collect::<Result<Vec,_>> plumbing of parse_deadline_modifications is now under contract on the whole function (one modification per pair in request order; Ok only if every pair is well-formed, the only failure is INVALID_ARGUMENT), using vstd's zip/map/collect specifications and one trusted axiom for std's `impl FromIterator<Result<A,E>> for Result<Vec<A>,E>` (all items unwrapped in order, or one of the errors); normalisation N12 binds the closure's tuple-pattern parameter by a `let`. The unary ModifyAckDeadline handler (async fn, whole body) is under contract: OK means the subscription was handed one modification per ack id, in order, each the per-pair result for the request's seconds value at one instant `now` of the call; a malformed id / negative value / malformed name is INVALID_ARGUMENT (returned before the handle is reached: the only call on the handle follows every `?` of the parsing, which the verifier checks through the postconditions at each exit), an absent name NOT_FOUND. Trusted: the handle (A-GLUE); the in-stream control handler handle_streaming_pull_request is under contract as a whole async function as well (after fix fa8d41c): inconsistent messages, malformed ack ids in either list and negative values are INVALID_ARGUMENT; OK means the acks and one modification per pair were handed to the subscription in order. That a rejected message applied nothing (F4) is not expressible as a contract and stays with the stand-in scenario `stream_reject_atomic`."),
 "C08": ("proof of the sequential parts (scoped)",
         "Proved: the Publish handler (async fn, whole body, B5) returns exactly one message id per submitted message, hands the topic every message of the request in request order and answers with the text of the ids the topic returned, in that order; the id-assignment region of publish_messages returns exactly one id per submitted message in request order, id i = (topic id << 32) | (counter + 1 + i), counter advances by n; ids are strictly monotone in the counter (bit-vector lemma); pull returns a prefix of the backlog in order and post appends at the end; history lemma lemma_fifo (unbounded histories of actor turns): the sequence of first deliveries on a subscription is a prefix of the sequence of accepted posts, each post's batch contiguous and in request order - requeued messages never overtake a never-delivered one.",
         "The Topic handle methods (publish / attach / remove / list / delete; async, B4) are under contract: OK means exactly that request with the caller's arguments was put into the topic actor's mailbox. NOT covered: 'awaits all posts before the next publish' and equal order on every subscription (async fan-out, A-GLUE); fewer than 2^32-1 messages per topic (A-ARITH, u32 counter)."),
 "C09": ("proof of the mapping code (scoped)",
         "Proved: request -> TopicMessage -> ReceivedMessage keeps data bytes and attribute map, message_id is Display of the assigned id, one publish time; MessageId::new is injective on (topic id, counter) (bit-vector proof); topic internal ids are fresh and never reused (delete does not touch next_id); the HTTP push payload region carries base64(data), both id fields, the subscription name and (after fix 79f6033) the attributes; the unary Pull helper pull_messages maps the leases it was handed position by position (each ReceivedMessage carries the data, attributes, ids and publish time of the lease at its position).",
         "Trusted: prost / serde_json / base64 encoders, Display of u64 (A-LIB, A-STR: uninterpreted injective functions); Bytes and SystemTime stand-ins; u32 counter wrap (A-ARITH)."),
 "C10": ("proof of the map operations (scoped)",
         "Proved: State::create_topic / State::create_subscription succeed exactly when the name is absent, then insert exactly that name with a fresh increasing internal id, and leave the state unchanged on ALREADY_EXISTS; the same-project rule is decided before any state access; delegate delete is map.remove; effective ack deadline = max(seconds, 10) for all i32; TopicActor::attach_subscription never fails (the create path registers the name before the attach and has no rollback, so 'a failed create leaves nothing behind' rests on this); read-back (bundle B6): parse_push_config stores the request's endpoint (trimmed), attributes and oidc token, map_to_subscription_resource reports the stored name, topic, whole seconds of the ack deadline and push configuration, and the two compose to the identity (lemma_push_config_roundtrip, lemma_ack_deadline_roundtrip: reported deadline = max(seconds, 10) for every i32).",
         "The lookup helpers of the handlers (get_subscription, get_topic_internal, subscription_not_found, topic_not_found, conflict) are under contract in B6: an absent name is answered with NOT_FOUND. NOT covered: linearizability across threads (parking_lot::RwLock trusted; that each wrapper holds the guard around exactly one State call is structural), 'later requests observe it' through the actors, the status mapping inside the remaining async handlers (get / delete / list / pull / streaming; gRPC scenario `namespace`). The Publish, CreateTopic, CreateSubscription, GetTopic, Acknowledge, ModifyAckDeadline, GetSubscription, DeleteSubscription and DeleteTopic handlers are under contract as whole async functions (B5, B2, B6): INVALID_ARGUMENT for a name that does not parse, NOT_FOUND for an absent name, OK only for an existing one; GetSubscription answers with the resource of the subscription the name denotes (its name and the configuration it stores). The status mapping of the two create handlers is under contract (B6, match arms of their map_err closures lifted as regions): CreateTopic / CreateSubscription answer ALREADY_EXISTS for an existing name, CreateSubscription NOT_FOUND for an absent topic and INVALID_ARGUMENT for a topic in another project."),
 "C11": ("proof of the set algebra (scoped)",
         "Proved: topic actor remove_subscription removes exactly the named entry, delete clears the set, sets deleted and is idempotent, attach never overwrites; subscription delete empties backlog and leases and sets deleted, after which post/pull/ack/modify are no-ops.",
         "The DeleteSubscription / DeleteTopic handlers (async, whole bodies, B6) are under contract: OK means the resource the name denotes was asked to delete itself and answered OK. NOT covered: order of effects across the two actors, liveness of the Weak<Topic>, that the Weak<Topic> is dead exactly when the topic is deleted (the mapping itself is under contract in B6: live topic -> its name, dead -> the deleted marker), re-creation not re-attaching (call-graph fact)."),
 "C13": ("proof with trusted seams",
         "Proved: Paging::new normalises the size (0 -> 20, > 1000 -> 1000), next offset = offset + page length and none for an empty page, negative size is INVALID_ARGUMENT, an issued token decodes to its offset, anything else is INVALID_ARGUMENT or some offset; walk lemma (unbounded list length): following offsets from the first page yields the list exactly once in order with pages <= size, and a hostile offset yields a valid (possibly empty) page; the ListTopics / ListTopicSubscriptions handlers pass the effective size and the token's offset on and answer with the names in order and a next_page_token exactly when a further offset is reported.",
         "Assumed contracts (listed in trusted_base): PageToken::encode/try_decode (base64 + to_ne_bytes; Verus cannot specify const-generic array lengths; a complete Kani harness ran out of memory at 30 GB, so the codec is swept by the bounded stand-in `tokens` on the mounted source file), <[T]>::sort_unstable. The sort + skip/take/collect tails of list_topics and list_subscriptions_in_project are under contract (window == page_items); the ListTopics and ListTopicSubscriptions handlers (async, whole bodies, B2) are under contract (effective size and token offset passed on, names in order, next_page_token exactly when the topic reports a further offset); the filter/collect heads of the list bodies and the window of TopicActor::list_subscriptions use the `cloned` adapter (no vstd spec) and are covered by the bounded stand-ins only; creation order = order of internal ids (C10)."),
 "C15": ("proof for the size bound (scoped for emptiness)",
         "Proved: the batch of pull_messages has at most max_count messages (at most one when the 16-bit limit is 0), never more than the backlog, and is empty only when the backlog is (contract clause `count_ok`; the exact count incl. the `usize as u16` truncation of the backlog length is a loop-level obligation); conversion lemma over all i32 m >= 1: such a batch never exceeds m even where `m as u16` wraps; streaming limit: try_into::<u16> rejects out-of-range values with INVALID_ARGUMENT; pull returns empty iff the backlog is empty; on the unary path the `max_messages as u16` call site, the helper pull_messages and the handle's pull_messages are under contract (at most max_messages messages for every i32 >= 1; the limit reaches the actor's mailbox unchanged); inside the wait loop an empty batch is answered at once only when return_immediately is set (region pull_empty_rule).",
         "NOT covered by contracts: the unary wait loop / 5-minute timer (select!) and the wake-up of further waiting consumers when a full batch leaves messages behind (Notify; gRPC scenarios `pull_limits`, `two_waiters`, `stream_limits` stand in); the StreamingPull loop body (try_stream! macro). The unary path from the request to the subscription handle is under contract (B5): the helper pull_messages (async fn, verified as such) returns one ReceivedMessage per message handed out, and the `request.max_messages as u16` call site of the pull handler (lifted region) yields at most max_messages messages for every i32 >= 1; the handle method itself is a trusted stand-in carrying the actor's proved count clause (A-GLUE)."),
 "C17": ("proof per parser (scoped)",
         "Proved: every parser under contract is total and panic-free (no unwrap, slicing through checked get, all integer arithmetic overflow-checked), returns INVALID_ARGUMENT exactly on the malformed class; streaming control-message validation rejects inconsistent messages before any subscription call; the Publish / CreateTopic / CreateSubscription / GetTopic / GetSubscription / Delete* / Acknowledge / ModifyAckDeadline / ListTopics / ListTopicSubscriptions handlers and the in-stream control handler answer INVALID_ARGUMENT for every malformed field they parse (names, ack ids, seconds, page size, push endpoint), proved on the whole async bodies.",
         "NOT covered: 'changes no state / connection survives' at RPC level, panics inside tonic/prost; parse_push_config is under contract (B6: INVALID_ARGUMENT exactly when the trimmed endpoint does not start with \"http\"); parse_project_id and its fn-local `parse` are under contract (B3: Ok exactly on the prefix \"projects/\", the id is the rest of the text); AckId::parse is verified against an assumed contract of std's str::parse::<u64> (FromStr declared to Verus; no longer an assumed contract of its own)."),
 "C18": ("proof",
         "Proved on the byte view of &str (after fix 0473433), both directions: try_parse(s) = Some(n) implies s = \"projects/\" p \"/topics/\" rest with '/' not in p, p non-empty, n.id = rest trimmed of '/' and non-empty; and every string of that form is accepted (so the canonical echo of an accepted name is accepted); likewise /subscriptions/.",
         "Trusted (A-STR): byte-level contracts of str::starts_with / find / trim_matches, Box<str>: From<&str>, lengths and end bytes of the literal segments, 'an ASCII byte and the position after it are char boundaries' (completeness only); Display and the derived Eq/Hash of the names are not under contract."),
}

NA = {
 "C06": "lost-wake-up freedom is a property of interleavings of tokio::sync::Notify permits with consumer polling; no contract over sequential code can state it (Verus has no Notify model, Kani no threads/async)",
 "C07": "deadlock freedom between the topic and subscription actors over bounded mailboxes is a schedule/liveness property of concurrent tasks, outside function contracts",
 "C12": "depends on which select! branch the runtime picks and on stream/channel closure: interleavings, not function behaviour",
 "C14": "at-least-once over push rounds, endpoint status handling and registry effects are effects on external systems (reqwest, shared registry through &self) across asynchronous rounds; the payload-content fragment is decided under C09",
 "C16": "quantifies over cancellation points of futures (drop after k polls); not a function-level notion",
 "C19": "race freedom of AtomicU64 + Notify::notify_waiters under arbitrary interleavings; would need a model of the atomics, which is a different technique family",
}

ASSUME_ALL = [
 "A-TOOL: Verus 0.2026.09.13, Z3, rustc are trusted; the extractor (vx/extract.py) copies function bodies token for token apart from the listed normalisations (coverage.normalisations_applied, coverage.dropped_text)",
 "A-GLUE: tokio::spawn, mpsc FIFO mailboxes, select!, oneshot replies are not verified; one task owns an actor's state, so handler turns do not interleave",
 "A-STUB: stand-in types in vx/prelude (Instant = u64 ns, Notify, observers, delegates, registry, Weak, Bytes, SystemTime, tonic::Status reduced to its code, prost structs mirrored field-exactly)",
 "A-ARITH: machine arithmetic bounds taken as preconditions: < 2^64 deliveries per subscription, < 2^32-1 messages per topic and topics/subscriptions per process, clock below 2^60 ns and not before EPOCH",
 "A-DERIVE: #[derive(PartialEq, Eq, PartialOrd, Ord, Hash, Clone)] on AckId, AckDeadline, names, PulledMessage behave field-wise and obey vstd's key / total-order models",
]

def main():
    checks = []
    # bounded stand-ins per property: taken from the driver that runs them (replay/replay_driver.py), so the note cannot go stale
    sys.path.insert(0, os.path.join(HERE, "replay"))
    import replay_driver
    STANDINS = {}
    for pid, kinds in replay_driver.BY_PROP.items():
        STANDINS[pid] = " Bounded stand-ins (searches on the real crate, labelled bounded, never counted as proved): " + "; ".join(
            "`%s` (%s)" % (k, replay_driver.SEARCHES[k][2]) for k in kinds) + "."
    for pid in sorted(CLAIMS):
        lvl, text, note = CLAIMS[pid]
        note = note + STANDINS.get(pid, "")
        checks.append({
            "property_id": pid,
            "quick_cmd": "./check %s --tier quick" % pid,
            "thorough_cmd": "./check %s --tier thorough" % pid,
            "evidence_file": "/verif/evidence/%s.json" % pid,
            "replay_cmd_template": "./check %s --replay {path}" % pid,
            "engine": "verus-contracts",
            "level_claimed": {"category": "proof", "text": lvl + ": " + text, "design_ref": "DESIGN.md §6 " + pid},
            "level_note": note,
            "technique": TECH,
        })
    m = {
        "version": 1,
        "setup_cmd": "cd /verif && ./setup.sh",
        "hooks": {
            "guard": "deltio_verif",
            "enable": "no hooks: the extractor reads /repo's working tree and the Kani/replay crates mount the real files by #[path]; nothing in /repo is instrumented",
            "baseline_off_cmd": "cd /repo && cargo test --workspace --no-fail-fast --offline",
            "source_commits": [],
            "add_only": True,
        },
        "engines": [
            {"name": "verus-contracts", "path": "/verif/check", "serves_properties": sorted(CLAIMS),
             "kind_free_text": "Verus 0.2026.09.13 on bundles assembled by vx/extract.py from /repo (contracts in vx/bundles/*.rs, trusted stand-ins in vx/prelude/*.rs)"},
        ],
        "checks": checks,
        "not_applicable": [{"property_id": k, "reason": v} for k, v in sorted(NA.items())],
        "notes": "exit 2 + 'UNDECIDED' = no verdict (lost anchor, unsupported construct, rlimit): never a VIOLATION. Genuine defects found and repaired in /repo: d51d4eb (C04), 0473433 (C18), 79f6033 (C09); see known_findings.jsonl.",
    }
    json.dump(m, open(os.path.join(HERE, "MANIFEST.json"), "w"), indent=1)
    json.dump({"all": ASSUME_ALL, **{k: [v[2]] for k, v in CLAIMS.items()}}, open(os.path.join(HERE, "vx", "assumptions.json"), "w"), indent=1)

if __name__ == "__main__":
    main()
