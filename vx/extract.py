#!/usr/bin/env python3
"""Mechanical extractor + assembler for the Verus bundles.

A *bundle template* (vx/bundles/<B>.rs) is a Verus source file in which lines that start
with `//@` are directives.  Everything else is copied verbatim (prelude, spec functions,
lemmas).  The directives pull items *token for token* out of /repo's working tree and
splice contract clauses into them at a small number of fixed insertion points:

  //@item <file> <kind> <Name> [drop-derive=A,B] [add-attr=...]
        copy a struct / enum / const / static / type item verbatim.

  //@fn <file> <Type::name | name> [tags=C02,C04] [opt...]
  //@ ret <ident>                         name the return value  (-> T   becomes  -> (ident: T))
  //@ requires[TAGS] <expr>               one clause per directive (continuation lines: //@+ ...)
  //@ ensures[TAGS] <expr>
  //@ decreases <expr>
  //@ loop <n> invariant[TAGS] <expr>     n-th loop keyword (while/for/loop) of the body, 1-based
  //@ loop <n> ensures <expr>
  //@ loop <n> decreases <expr>
  //@ loop <n> invariant_except_break[TAGS] <expr>
  //@ loop <n> iter <ident>               `for x in E`  ->  `for x in ident: E`   (ghost name only)
  //@ loop <n> proof-start { ... }        proof block as first statement of the loop body
  //@ loop <n> proof-end { ... }          proof block as last statement of the loop body
  //@ proof-start { ... }                 proof block as first statement of the function body
  //@ proof-before /regex/ { ... }        proof block before the single body line matching regex
  //@ proof-after /regex/ { ... }         proof block after the single body line matching regex
  //@ ghost-before /regex/ let ghost x = e;   ghost snapshot statement (only `let ghost|tracked ..;` is accepted)
  //@ closure <n> ret <ident>: <Type>     n-th closure of the body gets a named return (N8)
  //@ closure <n> ensures[TAGS] <expr>    (<n> may also be /regex/: the one closure whose text matches)
  //@ instantiate I=<type>                normalisation N5 (see DESIGN §4)
  //@ attr <text>                         extra attribute line in front of the fn (e.g. #[verifier::...])
  //@ region /start-regex/ /end-regex/ as <signature text>   (region extraction, see DESIGN §4)
  //@end

  //@hoisted <file> <fn>                  where fn-local static/const items of that fn are emitted (N2)

Normalisations applied to extracted text (each application is counted and reported):
  N1  `const X: &str`            -> `const X: &'static str`
  N2  fn-local `static`/`const`  -> hoisted to module level as `exec static/const .. ensures ..`
  N4  `crate::a::b::` / `super::` path prefixes removed (one module per bundle); kept with keep-paths=1 when the
      bundle provides modules of those names (two types of one name in one signature)
  N5  generic iterator parameter instantiated at its single call-site type
  N6  `const X: T = <exec call>;` -> `exec const X: T ensures X == <lit> { <exec call> }`
  N7  `for x in E` -> `for x in name: E` (ghost iterator binder for loop invariants)
  N8  closure `|p| EXPR` -> `|p| -> (r: T) ensures .. { EXPR }` (closure contract; body tokens unchanged)
  N9  `format!(..)` -> `format_stub()` (error-message text only; arguments must be call-free)
  N10 closure parameter `_` -> `_x`
  N12 closure with one tuple-pattern parameter `|(a, b)| BODY` -> `|n12_p| { let (a, b) = n12_p; BODY }`
  N11 fn-local `fn` removed from the enclosing body (hoist-fns=1) and extracted as a module-level fn of its own
  D1  `log::<level>!(...)` statements dropped
  D2  `///` doc comment lines dropped
  D3  named derives dropped from an item (drop-derive=..; e.g. Debug on types with stand-in fields)
  D4  named attributes dropped from an item (strip-attr=..; e.g. thiserror's #[error("..")])
The statement tokens of everything else are unchanged.

Output: the assembled file, plus a line map  assembled line -> origin
  ('tmpl', template line) | ('repo', file, line) | ('clause', clause id)
and a clause table  clause id -> {fn, kind, idx, tags, text}.
"""
import json
import os
import re
import sys

REPO = os.environ.get("VERIF_REPO", "/repo")


class ExtractError(Exception):
    """Lost anchor / item not found / unsupported shape: the check is UNDECIDED."""


# --------------------------------------------------------------------------------------
# masking: same-length copy of the source with comments and literal contents blanked


def mask_source(src):
    out = list(src)
    i, n = 0, len(src)

    def blank(a, b):
        for k in range(a, b):
            if out[k] != "\n":
                out[k] = " "

    while i < n:
        c = src[i]
        if c == "/" and i + 1 < n and src[i + 1] == "/":
            j = src.find("\n", i)
            j = n if j < 0 else j
            blank(i, j)
            i = j
        elif c == "/" and i + 1 < n and src[i + 1] == "*":
            depth, j = 1, i + 2
            while j < n and depth:
                if src.startswith("/*", j):
                    depth += 1
                    j += 2
                elif src.startswith("*/", j):
                    depth -= 1
                    j += 2
                else:
                    j += 1
            blank(i, j)
            i = j
        elif c == '"' or (c in "rb" and re.match(r'(?:b?r#*"|b")', src[i:i + 8]) and (i == 0 or not (src[i - 1].isalnum() or src[i - 1] == "_"))):
            m = re.match(r'(b?r)(#*)"', src[i:])
            if m:
                hashes = m.group(2)
                start = i + m.end()
                end = src.find('"' + hashes, start)
                if end < 0:
                    raise ExtractError("unterminated raw string")
                blank(start, end)
                i = end + 1 + len(hashes)
            else:
                start = i + (2 if c == "b" else 1)
                j = start
                while j < n and src[j] != '"':
                    j += 2 if src[j] == "\\" else 1
                blank(start, j)
                i = j + 1
        elif c == "'":
            # char literal or lifetime
            if i + 1 < n and src[i + 1] == "\\":
                j = src.find("'", i + 2)
                # '\'' case
                if src[i + 2] == "'":
                    j = i + 3
                blank(i + 1, j)
                i = j + 1
            elif i + 2 < n and src[i + 2] == "'":
                blank(i + 1, i + 2)
                i = i + 3
            else:
                i += 1  # lifetime
        else:
            i += 1
    return "".join(out)


def match_close(mask, open_pos):
    """position of the bracket matching the one at open_pos"""
    pairs = {"{": "}", "(": ")", "[": "]"}
    o = mask[open_pos]
    c = pairs[o]
    depth = 0
    for k in range(open_pos, len(mask)):
        ch = mask[k]
        if ch == o:
            depth += 1
        elif ch == c:
            depth -= 1
            if depth == 0:
                return k
    raise ExtractError("unbalanced %s at %d" % (o, open_pos))


def first_at_depth0(mask, start, chars, stop=None):
    """first position >= start of any char in `chars` outside () [] {} nesting (relative to start)"""
    depth = 0
    n = len(mask) if stop is None else stop
    k = start
    while k < n:
        ch = mask[k]
        if depth == 0 and ch in chars:
            return k
        if ch in "([{":
            depth += 1
        elif ch in ")]}":
            depth -= 1
            if depth < 0:
                return -1
        k += 1
    return -1


# --------------------------------------------------------------------------------------
# item scanner

ITEM_KW = re.compile(r"\b(fn|struct|enum|impl|const|static|type|trait|mod|use|macro_rules|lazy_static|union)\b")
QUAL = re.compile(r"\s*(pub\b(\s*\([^)]*\))?|async\b|unsafe\b|default\b|extern\b(\s*\"[^\"]*\")?)")


class Item:
    def __init__(self, kind, name, start, end, body_open=None, owner=None, trait=None):
        self.kind, self.name, self.start, self.end = kind, name, start, end
        self.body_open = body_open
        self.owner = owner
        self.trait = trait
        self.children = []


def scan_items(src, mask, lo, hi, owner=None):
    """items between lo and hi (a region at brace depth 0)"""
    items = []
    p = lo
    while True:
        # skip whitespace
        while p < hi and mask[p].isspace():
            p += 1
        if p >= hi:
            break
        start = p
        # attributes
        while True:
            while p < hi and mask[p].isspace():
                p += 1
            if mask.startswith("#[", p) or mask.startswith("#![", p):
                b = mask.index("[", p)
                p = match_close(mask, b) + 1
            else:
                break
        # qualifiers
        while True:
            m = QUAL.match(mask, p)
            if m and m.end() <= hi:
                p = m.end()
            else:
                break
        while p < hi and mask[p].isspace():
            p += 1
        m = ITEM_KW.match(mask, p)
        if not m:
            # `const fn`, or something unknown: skip to next ; or matching brace
            semi = first_at_depth0(mask, p, ";{", hi)
            if semi < 0:
                break
            p = (match_close(mask, semi) if mask[semi] == "{" else semi) + 1
            continue
        kw = m.group(1)
        q = m.end()
        if kw == "const" or kw == "static":
            m2 = re.match(r"\s*(unsafe\s+|async\s+|extern\s+)*fn\b", mask[q:q + 40])
            if m2:
                kw = "fn"
                q = q + m2.end()
        if kw == "fn":
            nm = re.match(r"\s*([A-Za-z_][A-Za-z0-9_]*)", mask[q:])
            name = nm.group(1)
            e = first_at_depth0(mask, q, "{;", hi)
            if e < 0:
                raise ExtractError("fn %s: no body" % name)
            if mask[e] == ";":
                items.append(Item("fn", name, start, e + 1, None, owner))
                p = e + 1
            else:
                close = match_close(mask, e)
                items.append(Item("fn", name, start, close + 1, e, owner))
                p = close + 1
        elif kw in ("struct", "enum", "union", "trait", "mod"):
            nm = re.match(r"\s*([A-Za-z_][A-Za-z0-9_]*)", mask[q:])
            name = nm.group(1)
            e = first_at_depth0(mask, q, "{;", hi)
            if mask[e] == ";":
                end = e + 1
                items.append(Item(kw, name, start, end, None, owner))
            else:
                close = match_close(mask, e)
                end = close + 1
                it = Item(kw, name, start, end, e, owner)
                if kw in ("mod", "trait"):
                    it.children = scan_items(src, mask, e + 1, close, name)
                items.append(it)
            p = end
        elif kw == "impl":
            e = first_at_depth0(mask, q, "{", hi)
            header = mask[q:e]
            # strip generics right after impl
            h = header.strip()
            if h.startswith("<"):
                depth = 0
                for k, ch in enumerate(h):
                    if ch == "<":
                        depth += 1
                    elif ch == ">":
                        depth -= 1
                        if depth == 0:
                            h = h[k + 1:].strip()
                            break
            trait = None
            mfor = re.search(r"\bfor\b", h)
            if mfor:
                trait = h[:mfor.start()].strip()
                h = h[mfor.end():].strip()
            h = re.split(r"\bwhere\b", h)[0].strip()
            tname = re.match(r"([A-Za-z_][A-Za-z0-9_:]*)", h).group(1).split("::")[-1]
            close = match_close(mask, e)
            it = Item("impl", tname, start, close + 1, e, owner, trait)
            it.children = scan_items(src, mask, e + 1, close, tname)
            items.append(it)
            p = close + 1
        elif kw in ("lazy_static", "macro_rules"):
            e = first_at_depth0(mask, q, "{(", hi)
            close = match_close(mask, e)
            end = close + 1
            if mask[end:end + 1] == ";":
                end += 1
            items.append(Item(kw, kw, start, end, e, owner))
            p = end
        else:  # const static type use
            nm = re.match(r"\s*(mut\s+)?([A-Za-z_][A-Za-z0-9_]*)", mask[q:])
            name = nm.group(2) if nm else "?"
            e = first_at_depth0(mask, q, ";", hi)
            if e < 0:
                raise ExtractError("unterminated %s item" % kw)
            items.append(Item(kw, name, start, e + 1, None, owner))
            p = e + 1
    return items


class SourceFile:
    def __init__(self, rel):
        self.rel = rel
        path = os.path.join(REPO, rel)
        if not os.path.exists(path):
            raise ExtractError("file not found: %s" % rel)
        self.src = open(path, encoding="utf-8").read()
        self.mask = mask_source(self.src)
        self.items = scan_items(self.src, self.mask, 0, len(self.src))
        # line starts
        self.line_starts = [0]
        for m in re.finditer("\n", self.src):
            self.line_starts.append(m.end())

    def line_of(self, pos):
        import bisect
        return bisect.bisect_right(self.line_starts, pos)

    def find_fn(self, path):
        parts = path.split("::")
        cands = []
        if len(parts) == 1:
            cands = [it for it in self.items if it.kind == "fn" and it.name == parts[0]]
        else:
            owner, name = parts[-2], parts[-1]
            for it in self.items:
                if it.kind in ("impl", "mod", "trait") and it.name == owner:
                    cands += [c for c in it.children if c.kind == "fn" and c.name == name]
                # nested fn inside a fn body (e.g. parse_project_id::parse)
                if it.kind == "fn" and it.name == owner and it.body_open is not None:
                    inner = scan_items(self.src, self.mask, it.body_open + 1, it.end - 1, owner)
                    cands += [c for c in inner if c.kind == "fn" and c.name == name]
        # do not pick things inside #[cfg(test)] modules: those are children of mod items, not scanned for len(parts)==1
        if len(cands) != 1:
            raise ExtractError("%s: fn %s matches %d items" % (self.rel, path, len(cands)))
        return cands[0]

    def find_item(self, kind, name):
        cands = [it for it in self.items if it.kind == kind and it.name == name]
        if len(cands) != 1:
            raise ExtractError("%s: %s %s matches %d items" % (self.rel, kind, name, len(cands)))
        return cands[0]


class DerivedSource:
    """a SourceFile whose text went through a line-preserving normalisation (N3)"""
    def __init__(self, base, src):
        self.rel = base.rel
        self.src = src
        self.mask = mask_source(src)
        self.items = scan_items(self.src, self.mask, 0, len(self.src))
        self.line_starts = [0]
        for m in re.finditer("\n", self.src):
            self.line_starts.append(m.end())
        if len(self.line_starts) != len(base.line_starts):
            raise ExtractError("%s: N3 changed the line structure" % base.rel)
    line_of = SourceFile.line_of
    find_fn = SourceFile.find_fn
    find_item = SourceFile.find_item


def apply_n3(sf, it, out, where):
    """N3:  E.into_iter().map(|mut p| { S*; R }).collect::<Vec<_>>()
        ->  { let mut n3_acc = Vec::new(); for mut p in E { S*; n3_acc.push(R); } n3_acc }
    inside the body of item `it`; newlines are kept so that line numbers do not move."""
    src, mask = sf.src, sf.mask
    body = mask[it.body_open:it.end]
    m = re.search(r"(\b\w+)(\s*)\.into_iter\(\)(\s*)\.map\(\|(mut\s+\w+)\|(\s*)\{", body)
    if not m:
        raise ExtractError("%s: N3 shape not found" % where)
    a = it.body_open + m.start()
    brace = it.body_open + m.end() - 1
    close = match_close(mask, brace)
    tail = re.match(r"\)(\s*)\.collect::<Vec<_>>\(\)", mask[close + 1:])
    if not tail:
        raise ExtractError("%s: N3: closure is not followed by .collect::<Vec<_>>()" % where)
    end = close + 1 + tail.end()
    # final expression R of the closure body: text after the last `;` at depth 0
    inner_lo, inner_hi = brace + 1, close
    depth, last_semi = 0, inner_lo - 1
    for k in range(inner_lo, inner_hi):
        ch = mask[k]
        if ch in "([{":
            depth += 1
        elif ch in ")]}":
            depth -= 1
        elif ch == ";" and depth == 0:
            last_semi = k
    r_lo = last_semi + 1
    while r_lo < inner_hi and mask[r_lo].isspace():
        r_lo += 1
    r_hi = inner_hi
    while r_hi > r_lo and mask[r_hi - 1].isspace():
        r_hi -= 1
    if r_lo >= r_hi:
        raise ExtractError("%s: N3: closure has no final expression" % where)
    nl = lambda t: "".join(ch for ch in t if ch == "\n")
    head = "{ let mut n3_acc = Vec::new(); for %s in %s%s%s{" % (m.group(4), m.group(1), nl(m.group(2) + m.group(3)), nl(m.group(5)))
    new = (src[:a] + head + src[brace + 1:r_lo] + "n3_acc.push(" + src[r_lo:r_hi] + ");" + src[r_hi:close]
           + "}" + nl(tail.group(1)) + " n3_acc }" + src[end:])
    out.count("N3", "%s: %s.into_iter().map(|%s| ..).collect() -> for loop" % (where, m.group(1), m.group(4)))
    d = DerivedSource(sf, new)
    return d


_files = {}


def get_file(rel):
    if rel not in _files:
        _files[rel] = SourceFile(rel)
    return _files[rel]


# --------------------------------------------------------------------------------------
# pieces: list of (text, origin) with text possibly multi-line; flattened at the end


class Out:
    def __init__(self):
        self.lines = []  # (text, origin)
        self.clauses = {}
        self.fns = []  # contracted functions
        self.norm = {}  # normalisation counters
        self.dropped = []
        self.hints_dropped = set()  # functions that lost a proof hint on this tree

    def emit(self, text, origin):
        for ln in text.split("\n"):
            self.lines.append((ln, origin))

    def count(self, rule, what):
        self.norm.setdefault(rule, []).append(what)


LOG_STMT = re.compile(r"log::(trace|debug|info|warn|error)!\s*\(")


KEEP_PATHS = [False]


def apply_text_norms(text, mask, out, where):
    """N4 and D1 on an extracted piece; returns new text + mask (same length relation not kept)"""
    # D1: log statements
    while True:
        m = LOG_STMT.search(mask)
        if not m:
            break
        close = match_close(mask, m.end() - 1)
        end = close + 1
        while end < len(mask) and mask[end] in " \t":
            end += 1
        if end < len(mask) and mask[end] == ";":
            end += 1
        # keep line count stable: replace by blanks, keep newlines
        seg = text[m.start():end]
        inner = text[m.end():close]
        # only allow simple arguments
        if re.search(r"\b(?!len\b|clone\b)[a-z_][a-z0-9_]*\s*\(", mask[m.end():close]):
            raise ExtractError("%s: log statement with a non-trivial call: %s" % (where, seg.strip()[:80]))
        blank = "".join(ch if ch == "\n" else " " for ch in seg)
        text = text[:m.start()] + blank + text[end:]
        mask = mask[:m.start()] + blank + mask[end:]
        out.count("D1", "%s: %s" % (where, " ".join(seg.split())[:100]))
        out.dropped.append("%s: %s" % (where, " ".join(seg.split())))
    # N9: format!(..) -> format_stub()   (message text only; the arguments may not contain calls)
    while True:
        m = re.search(r"\bformat!\s*\(", mask)
        if not m:
            break
        close = match_close(mask, m.end() - 1)
        args_mask = re.sub(r"\.\s*[a-z_][a-z0-9_]*\s*\(\s*\)", "", mask[m.end():close])   # zero-argument getters are tolerated
        if re.search(r"\b[a-z_][a-z0-9_]*\s*\(", args_mask):
            raise ExtractError("%s: format! with a call in its arguments" % where)
        seg = text[m.start():close + 1]
        if args_mask != mask[m.end():close]:
            out.dropped.append("%s: format! argument with a zero-argument getter call dropped with the message text: %s" % (where, " ".join(seg.split())[:120]))
        repl = "format_stub()"
        pad = "".join(ch for ch in seg if ch == "\n")
        text = text[:m.start()] + repl + pad + text[close + 1:]
        mask = mask[:m.start()] + repl + pad + mask[close + 1:]
        out.count("N9", "%s: %s" % (where, " ".join(seg.split())[:100]))
    # N10: closure parameter `_` gets a name (Verus rejects `_` closure parameters)
    while True:
        m = re.search(r"\|\s*_\s*\|", mask)
        if not m:
            break
        text = text[:m.start()] + "|_x|" + text[m.end():]
        mask = mask[:m.start()] + "|_x|" + mask[m.end():]
        out.count("N10", where)
    # N4: crate:: / super:: path prefixes (opt-out per function with keep-paths=1: the bundle then provides the modules)
    if KEEP_PATHS[0]:
        return text
    def n4(m):
        out.count("N4", "%s: %s" % (where, m.group(0)))
        return ""
    new = []
    last = 0
    for m in re.finditer(r"\b(?:crate|super)::(?:[a-z_][a-z0-9_]*::)*", mask):
        new.append(text[last:m.start()])
        out.count("N4", "%s: %s" % (where, m.group(0)))
        last = m.end()
    new.append(text[last:])
    text = "".join(new)
    return text


def strip_doc_comments(text, out, where):
    res = []
    for ln in text.split("\n"):
        if re.match(r"\s*///", ln) or re.match(r"\s*//!", ln):
            res.append("")
            out.count("D2", where)
        else:
            res.append(ln)
    return "\n".join(res)


def parse_tags(s):
    return [t for t in re.split(r"[ ,]+", s.strip()) if t] if s else []


class FnSpec:
    def __init__(self, file, path, opts, tmpl_line):
        self.file, self.path, self.opts, self.tmpl_line = file, path, opts, tmpl_line
        self.tags = parse_tags(opts.get("tags", ""))
        self.ret = None
        self.clauses = []  # (kind, tags, text, tmpl_line)
        self.loops = {}  # n -> list of (kind, tags, text, tmpl_line)
        self.closures = {}
        self.proofs = []  # (where, regex, text, tags, tmpl_line)
        self.inst = None
        self.attrs = []
        self.region = None
        self.sig_override = None


DIRECTIVE = re.compile(r"^\s*//@(\+?)\s?(.*)$")


def parse_template(path):
    """returns list of nodes: ('text', line_no, text) | ('item', ...) | ('fn', FnSpec) | ('hoisted', file, fn)"""
    nodes = []
    lines = open(path, encoding="utf-8").read().split("\n")
    i = 0
    cur = None
    last = None  # last clause tuple holder for continuation
    while i < len(lines):
        ln = lines[i]
        m = DIRECTIVE.match(ln)
        if not m:
            if cur is not None:
                raise ExtractError("%s:%d: plain text inside //@fn block (missing //@end?)" % (path, i + 1))
            nodes.append(("text", i + 1, ln))
            i += 1
            continue
        cont, body = m.group(1), m.group(2)
        if cont:
            if last is None:
                raise ExtractError("%s:%d: continuation without clause" % (path, i + 1))
            last[2] = last[2] + "\n" + body
            i += 1
            continue
        body = body.rstrip()
        if cur is None:
            w = body.split()
            if not w:
                i += 1
                continue
            if w[0].startswith("fn") and w[0] == "fn":
                opts = dict(x.split("=", 1) for x in w[3:] if "=" in x)
                cur = FnSpec(w[1], w[2], opts, i + 1)
                last = None
            elif w[0] == "item":
                opts = dict(x.split("=", 1) for x in w[4:] if "=" in x)
                nodes.append(("item", i + 1, w[1], w[2], w[3], opts))
            elif w[0] == "hoisted":
                nodes.append(("hoisted", i + 1, w[1], w[2], dict(o.split("=", 1) for o in w[3:])))
            elif w[0] == "include":
                inc = os.path.join(os.path.dirname(os.path.dirname(os.path.abspath(path))), w[1])
                for k, tl in enumerate(open(inc, encoding="utf-8").read().split("\n")):
                    nodes.append(("text", ("prelude", w[1], k + 1), tl))
            elif w[0] == "bundle":
                nodes.append(("meta", i + 1, body))
            elif w[0] == "tags":
                nodes.append(("tags", i + 1, parse_tags(" ".join(w[1:]))))
            elif w[0] == "#":
                pass
            else:
                raise ExtractError("%s:%d: unknown directive %s" % (path, i + 1, w[0]))
            i += 1
            continue
        # inside fn block
        if body.startswith("#"):
            i += 1
            continue
        if body == "end":
            nodes.append(("fn", cur))
            cur = None
            last = None
            i += 1
            continue
        mm = re.match(r"(ret)\s+(\w+)$", body)
        if mm:
            cur.ret = mm.group(2)
            i += 1
            continue
        mm = re.match(r"(requires|ensures|decreases|recommends|returns|no_unwind)(?:\[([^\]]*)\])?\s+(.*)$", body, re.S)
        if mm:
            last = [mm.group(1), parse_tags(mm.group(2)), mm.group(3), i + 1]
            cur.clauses.append(last)
            i += 1
            continue
        mm = re.match(r"loop\s+(\d+)\s+(invariant|invariant_except_break|ensures|decreases|iter|proof-start|proof-end)(?:\[([^\]]*)\])?\s+(.*)$", body, re.S)
        if mm:
            last = [mm.group(2), parse_tags(mm.group(3)), mm.group(4), i + 1]
            cur.loops.setdefault(int(mm.group(1)), []).append(last)
            i += 1
            continue
        mm = re.match(r"closure\s+(\d+|/(?:[^/\\]|\\.)+/)\s+(ret|requires|ensures)(?:\[([^\]]*)\])?\s+(.*)$", body, re.S)
        if mm:
            last = [mm.group(2), parse_tags(mm.group(3)), mm.group(4), i + 1]
            cur.closures.setdefault(int(mm.group(1)) if mm.group(1).isdigit() else mm.group(1), []).append(last)
            i += 1
            continue
        mm = re.match(r"(proof-start)(?:\[([^\]]*)\])?\s+(.*)$", body, re.S)
        if mm:
            last = [mm.group(1), parse_tags(mm.group(2)), mm.group(3), i + 1, None]
            cur.proofs.append(last)
            i += 1
            continue
        mm = re.match(r"(ghost-before|ghost-after)\s+/((?:[^/\\]|\\.)*)/\s+(let (?:ghost|tracked) .*;)$", body, re.S)
        if mm:
            last = [mm.group(1), [], mm.group(3), i + 1, mm.group(2)]
            cur.proofs.append(last)
            i += 1
            continue
        mm = re.match(r"(proof-before|proof-after)(?:\[([^\]]*)\])?\s+/((?:[^/\\]|\\.)*)/\s+(.*)$", body, re.S)
        if mm:
            last = [mm.group(1), parse_tags(mm.group(2)), mm.group(4), i + 1, mm.group(3)]
            cur.proofs.append(last)
            i += 1
            continue
        mm = re.match(r"instantiate\s+(\w+)=(.*)$", body)
        if mm:
            cur.inst = (mm.group(1), mm.group(2).strip())
            i += 1
            continue
        mm = re.match(r"attr\s+(.*)$", body)
        if mm:
            cur.attrs.append(mm.group(1))
            i += 1
            continue
        mm = re.match(r"region\s+/((?:[^/\\]|\\.)*)/\s+/((?:[^/\\]|\\.)*)/\s+as\s+(.*)$", body, re.S)
        if mm:
            last = ["region", [], mm.group(3), i + 1]
            cur.region = (mm.group(1), mm.group(2), last)
            i += 1
            continue
        raise ExtractError("%s:%d: cannot parse directive: %s" % (path, i + 1, body))
    if cur is not None:
        raise ExtractError("%s: unterminated //@fn block for %s" % (path, cur.path))
    return nodes


def clause_id(bundle, fnpath, kind, idx):
    return "%s/%s/%s#%d" % (bundle, fnpath, kind, idx)


def find_loops(mask, lo, hi):
    """positions (kw_start, body_open) of loop keywords in textual order"""
    res = []
    for m in re.finditer(r"\b(while|for|loop)\b", mask[lo:hi]):
        kw = lo + m.start()
        # `for` in `impl Trait for` or `for<'a>` is not expected inside bodies
        after = mask[lo + m.end():lo + m.end() + 1]
        if m.group(1) == "for" and after == "<":
            continue
        b = first_at_depth0(mask, lo + m.end(), "{", hi)
        if b < 0:
            continue
        res.append((kw, b, m.group(1)))
    return res


def find_closures(mask, lo, hi):
    """closures in textual order: (bar_pos, after_params, body_start, body_end, is_block)"""
    res = []
    k = lo
    while k < hi:
        if mask[k] == "|":
            # previous significant char
            j = k - 1
            while j >= lo and mask[j].isspace():
                j -= 1
            prev = mask[j] if j >= lo else "{"
            prevword = re.search(r"(\w+)$", mask[lo:j + 1])
            is_start = prev in "(,={;[" or (prevword and prevword.group(1) in ("move", "return"))
            if not is_start:
                k += 2 if mask[k:k + 2] == "||" else 1
                continue
            if mask[k:k + 2] == "||":
                after = k + 2
            else:
                e = mask.find("|", k + 1, hi)
                if e < 0:
                    break
                after = e + 1
            b = after
            while b < hi and mask[b].isspace():
                b += 1
            if mask[b:b + 2] == "->":
                # already has a return type: body must be a block
                b2 = first_at_depth0(mask, b, "{", hi)
                res.append((k, after, b2, match_close(mask, b2) + 1, True))
                k = b2 + 1
                continue
            if mask[b] == "{":
                res.append((k, after, b, match_close(mask, b) + 1, True))
                k = b + 1
                continue
            e = first_at_depth0(mask, b, ",);", hi)
            # depth underflow (closing paren of the call) is reported as -1 by first_at_depth0: scan manually
            depth = 0
            e = b
            while e < hi:
                ch = mask[e]
                if ch in "([{":
                    depth += 1
                elif ch in ")]}":
                    if depth == 0:
                        break
                    depth -= 1
                elif ch in ",;" and depth == 0:
                    break
                e += 1
            # trim trailing whitespace
            ee = e
            while ee > b and mask[ee - 1].isspace():
                ee -= 1
            res.append((k, after, b, ee, False))
            k = b
            continue
        k += 1
    return res


def assemble_fn(spec, bundle, out, canary=False):
    KEEP_PATHS[0] = bool(spec.opts.get("keep-paths"))
    try:
        return assemble_fn_(spec, bundle, out, canary)
    finally:
        KEEP_PATHS[0] = False


def assemble_fn_(spec, bundle, out, canary=False):
    sf = get_file(spec.file)
    it = sf.find_fn(spec.path)
    if it.body_open is None:
        raise ExtractError("%s: %s has no body" % (spec.file, spec.path))
    where = "%s::%s" % (spec.file, spec.path)
    src, mask = sf.src, sf.mask
    fnkey = spec.path if spec.region is None else spec.path + "@" + spec.opts.get("name", "region")

    # insertion table: pos -> list of (text, origin); plus replacements (a, b, text)
    inserts = {}
    replaces = []

    def ins(pos, text, origin, newline_before=True):
        inserts.setdefault(pos, []).append((text, origin))

    body_open, body_close = it.body_open, it.end - 1
    sig_start = it.start

    def add_clause(kind, tags, text, tmpl_line, idx, scope):
        cid = clause_id(bundle, fnkey, scope + kind, idx)
        out.clauses[cid] = {
            "fn": fnkey, "kind": scope + kind, "idx": idx,
            "tags": sorted(set(tags or spec.tags)), "text": " ".join(text.split()),
            "file": spec.file, "tmpl_line": tmpl_line,
        }
        return cid

    if spec.region is not None:
        if spec.opts.get("n3"):
            sf = apply_n3(sf, it, out, where)
            it = sf.find_fn(spec.path)
        return assemble_region(spec, bundle, out, sf, it, canary)

    # ---- signature: return naming
    sig_mask = mask[sig_start:body_open]
    if spec.ret:
        # find '->' at depth 0 after the parameter list
        fnkw = re.search(r"\bfn\b", sig_mask).end()
        par_open = sig_start + sig_mask.index("(", fnkw)
        par_close = match_close(mask, par_open)
        arrow = mask.find("->", par_close, body_open)
        if arrow < 0:
            raise ExtractError("%s: ret given but no return type" % where)
        wh = re.search(r"\bwhere\b", mask[arrow:body_open])
        rt_end = arrow + wh.start() if wh else body_open
        rt_text = src[arrow + 2:rt_end].strip()
        replaces.append((arrow, rt_end, "-> (%s: %s)%s" % (spec.ret, rt_text, "\n" if wh else " ")))
    # ---- N5 instantiate
    if spec.inst:
        tv, ty = spec.inst
        m1 = re.search(r"<\s*%s\s*>" % tv, mask[sig_start:body_open])
        wh = re.search(r"\bwhere\b", mask[sig_start:body_open])
        if not m1 or not wh:
            raise ExtractError("%s: N5 shape not found" % where)
        replaces.append((sig_start + m1.start(), sig_start + m1.end(), ""))
        replaces.append((sig_start + wh.start(), body_open, ""))
        for m2 in re.finditer(r":\s*%s\b" % tv, mask[sig_start:sig_start + wh.start()]):
            replaces.append((sig_start + m2.start(), sig_start + m2.end(), ": " + ty))
        out.count("N5", "%s: %s := %s" % (where, tv, ty))
    # ---- contract clauses before body '{'
    groups = {}
    for c in spec.clauses:
        groups.setdefault(c[0], []).append(c)
    order = ["requires", "recommends", "ensures", "returns", "decreases", "no_unwind"]
    first = True
    for kind in order:
        if kind not in groups:
            continue
        ins(body_open, "    " + kind, ("tmpl", groups[kind][0][3]))
        for idx, c in enumerate(groups[kind], 1):
            cid = add_clause(kind, c[1], c[2], c[3], idx, "")
            ins(body_open, "        " + c[2].replace("\n", "\n        ") + ",", ("clause", cid))
    # ---- loops
    loops = find_loops(mask, body_open + 1, body_close)
    for n, cl in sorted(spec.loops.items()):
        if n > len(loops):
            raise ExtractError("%s: loop %d not found (body has %d loops)" % (where, n, len(loops)))
        kw, lb, kwname = loops[n - 1]
        lclose = match_close(mask, lb)
        lg = {}
        for c in cl:
            lg.setdefault(c[0], []).append(c)
        if "iter" in lg:
            if kwname != "for":
                raise ExtractError("%s: loop %d is not a for loop" % (where, n))
            mm = re.search(r"\bin\b", mask[kw:lb])
            pos = kw + mm.end()
            replaces.append((pos, pos, " %s:" % lg["iter"][0][2].strip()))
            out.count("N7", "%s: ghost iterator name on loop %d" % (where, n))
        for kind in ["invariant_except_break", "invariant", "ensures", "decreases"]:
            if kind not in lg:
                continue
            ins(lb, "        " + kind, ("tmpl", lg[kind][0][3]))
            for idx, c in enumerate(lg[kind], 1):
                cid = add_clause(kind, c[1], c[2], c[3], idx, "loop%d." % n)
                ins(lb, "            " + c[2].replace("\n", "\n            ") + ",", ("clause", cid))
        for idx, c in enumerate(lg.get("proof-start", []), 1):
            cid = add_clause("proof-start", c[1], c[2], c[3], idx, "loop%d." % n)
            ins(lb + 1, "proof " + c[2], ("clause", cid))
        for idx, c in enumerate(lg.get("proof-end", []), 1):
            cid = add_clause("proof-end", c[1], c[2], c[3], idx, "loop%d." % n)
            ins(lclose, "proof " + c[2], ("clause", cid))
    # ---- closures (N8: explicit return type + contract + braces around the unchanged body expression)
    if spec.closures:
        closures = find_closures(mask, body_open + 1, body_close)
        for n, cl in sorted(spec.closures.items(), key=lambda kv: str(kv[0])):
            if isinstance(n, str):
                # addressed by a regex on the closure's (masked) text instead of its ordinal: an inserted or removed
                # closure elsewhere in the body does not move the annotation
                rx_c = n[1:-1]
                hits = [k for k, c in enumerate(closures) if re.search(rx_c, mask[c[0]:c[3]])]
                if len(hits) != 1:
                    raise ExtractError("%s: closure /%s/ matches %d closures" % (where, rx_c, len(hits)))
                n = hits[0] + 1
            if n > len(closures):
                raise ExtractError("%s: closure %d not found (body has %d closures)" % (where, n, len(closures)))
            bar, after, cb, ce, is_block = closures[n - 1]
            ret = [c for c in cl if c[0] == "ret"]
            if len(ret) != 1:
                raise ExtractError("%s: closure %d needs exactly one ret directive" % (where, n))
            # $1, $2, ... in a closure clause stand for the closure's parameter names in the real code (a renamed
            # parameter does not lose the annotation)
            pnames = [re.sub(r"^\s*(?:mut\s+)?(\w+).*$", r"\1", q, flags=re.S) for q in src[bar + 1:after - 1].split(",")] if after - bar > 2 else []
            # N12: a single tuple-pattern parameter `|(a, b)| BODY` becomes `|n12_p| { let (a, b) = n12_p; BODY }`
            # (Verus accepts only variables as closure parameters); `$1` in the annotation then names the tuple
            n12_let = ""
            ptxt = src[bar + 1:after - 1].strip()
            if ptxt.startswith("(") and match_close(mask, bar + 1 + src[bar + 1:after - 1].index("(")) == bar + 1 + src[bar + 1:after - 1].rindex(")") and ptxt.endswith(")"):
                n12_let = " let %s = n12_p;" % ptxt
                replaces.append((bar + 1, after - 1, "n12_p"))
                pnames = ["n12_p"]
                out.count("N12", "%s: closure %d: tuple-pattern parameter %s bound by a `let` at the start of the body" % (where, n, " ".join(ptxt.split())))

            def subst(t, pnames=pnames):
                return re.sub(r"\$(\d)", lambda m: pnames[int(m.group(1)) - 1] if int(m.group(1)) <= len(pnames) else m.group(0), t)
            hdr = " -> (%s)" % ret[0][2].strip()
            for kind in ["requires", "ensures"]:
                cs = [c for c in cl if c[0] == kind]
                if not cs:
                    continue
                parts = []
                for idx, c in enumerate(cs, 1):
                    cid = add_clause(kind, c[1], c[2], c[3], idx, "closure%d." % n)
                    parts.append(subst(c[2]))
                hdr += " %s %s" % (kind, ", ".join(parts))
            if is_block:
                replaces.append((after, after, hdr + " "))
                if n12_let:
                    replaces.append((cb + 1, cb + 1, n12_let))
            else:
                replaces.append((after, after, hdr + " {" + n12_let))
                replaces.append((ce, ce, " }"))
            out.count("N8", "%s: closure %d annotated" % (where, n))
    # ---- proof blocks
    pidx = 0
    for p in spec.proofs:
        pidx += 1
        kind, tags, text, tl, rx = p
        cid = add_clause("proof", tags, text, tl, pidx, "")
        if kind == "proof-start":
            ins(body_open + 1, "proof " + text, ("clause", cid))
            continue
        # line anchored
        l0 = sf.line_of(body_open)
        l1 = sf.line_of(body_close)
        hits = []
        for ln in range(l0, l1 + 1):
            a = sf.line_starts[ln - 1]
            b = sf.line_starts[ln] - 1 if ln < len(sf.line_starts) else len(src)
            # match on masked text so that comments cannot satisfy an anchor
            if re.search(rx, mask[a:b]):
                hits.append((a, b))
        if len(hits) == 0 and kind in ("proof-before", "proof-after"):
            # a proof hint is scaffolding: when its anchor line is gone the hint is dropped and the contract is checked
            # without it (it then verifies, or a named obligation fails); ghost bindings and contract anchors stay fatal
            out.dropped.append("%s: proof hint anchored at /%s/ dropped on this tree (anchor line not found)" % (where, rx))
            out.hints_dropped.add(fnkey)
            out.clauses.pop(cid, None)
            continue
        if len(hits) != 1:
            raise ExtractError("%s: anchor /%s/ matches %d lines" % (where, rx, len(hits)))
        a, b = hits[0]
        pre = "" if kind.startswith("ghost") else "proof "
        if kind.endswith("-before"):
            ins(a, pre + text, ("clause", cid))
        else:
            ins(b + 1, pre + text, ("clause", cid))
    # ---- N11: fn-local fn items are removed from the body; the template extracts them by `outer::inner` as module-level
    # functions with their own contract (Verus rejects fn-local items). The body's other tokens are unchanged.
    hoisted_fn_ranges = []
    if spec.opts.get("hoist-fns"):
        inner = [c for c in scan_items(src, mask, body_open + 1, body_close, spec.path) if c.kind == "fn"]
        if not inner:
            raise ExtractError("%s: hoist-fns given but the body has no fn-local fn" % where)
        for c in inner:
            replaces.append((c.start, c.end, ""))
            hoisted_fn_ranges.append((c.start, c.end))
            out.count("N11", "%s: fn-local fn `%s` hoisted to module level (extracted as %s::%s)" % (where, c.name, spec.path, c.name))
    # ---- N2 hoist
    hoisted = []
    for m in re.finditer(r"(?m)^[ \t]*(static|const)\s+([A-Z_][A-Z0-9_]*)\s*:\s*([^=;]+?)\s*=\s*([^;]+);[ \t]*$", mask[body_open:body_close]):
        a, b = body_open + m.start(), body_open + m.end()
        if any(x <= a < y for x, y in hoisted_fn_ranges):
            continue   # belongs to a fn-local fn that is extracted on its own (N11)
        txt = src[a:b]
        mm = re.match(r"\s*(static|const)\s+(\w+)\s*:\s*([^=;]+?)\s*=\s*([^;]+);", txt)
        hoisted.append((mm.group(1), mm.group(2), mm.group(3), mm.group(4).strip(), sf.line_of(a)))
        replaces.append((a, b, ""))
        out.count("N2", "%s: %s" % (where, " ".join(txt.split())))
    out.hoisted.setdefault((spec.file, spec.path), []).extend(hoisted)
    # ---- assumed contract whose body cannot even be type-checked here (external crates): body replaced by a stub
    if spec.opts.get("stub-body"):
        if not any("external_body" in a for a in spec.attrs):
            raise ExtractError("%s: stub-body is only allowed together with #[verifier::external_body]" % where)
        inserts.clear()
        replaces[:] = [r for r in replaces if r[0] < body_open]
        for kind in order:
            if kind in groups:
                ins(body_open, "    " + kind, ("tmpl", groups[kind][0][3]))
                for idx, c in enumerate(groups[kind], 1):
                    ins(body_open, "        " + c[2].replace("\n", "\n        ") + ",", ("clause", clause_id(bundle, fnkey, kind, idx)))
        replaces.append((body_open + 1, it.end - 1, " unimplemented!() "))
        out.dropped.append("%s: body not verified and not type-checked (assumed contract, external_body)" % where)
    # ---- canary: wrap body
    if canary and not spec.opts.get("stub-body"):
        if spec.opts.get("canary") == "start":
            # body is a single `return EXPR;`: nothing after it is reachable, so the canary sits in front of it
            ins(body_open + 1, "proof { assert(false); }", ("canary", fnkey))
        else:
            ins(body_open + 1, "let __canary_r = {", ("tmpl", spec.tmpl_line))
            ins(body_close, "}; proof { assert(false); } __canary_r", ("canary", fnkey))

    # ---- emit
    for a in spec.attrs:
        out.emit(a, ("tmpl", spec.tmpl_line))
    emit_range(sf, out, it.start, it.end, inserts, replaces, where)
    out.fns.append({"fn": fnkey, "file": spec.file, "lines": [sf.line_of(it.start), sf.line_of(it.end - 1)],
                    "tags": spec.tags, "tmpl_line": spec.tmpl_line,
                    "external_body": any("external_body" in a for a in spec.attrs),
                    "canary": spec.opts.get("canary", "check"), "verus_name": spec.opts.get("name")})


def emit_range(sf, out, lo, hi, inserts, replaces, where):
    """emit src[lo:hi] with insertions (each on its own line) and replacements, line-mapped"""
    src = sf.src
    events = []
    for pos, lst in inserts.items():
        events.append((pos, 1, "ins", lst))
    for a, b, t in replaces:
        events.append((a, 0, "rep", (b, t)))
    events.sort(key=lambda e: (e[0], e[1]))
    pieces = []  # (text, origin or None meaning repo)
    p = lo
    for pos, _, kind, payload in events:
        if pos < p and kind == "rep":
            raise ExtractError("%s: overlapping rewrite" % where)
        if pos > p:
            pieces.append((src[p:pos], None, p))
            p = pos
        if kind == "ins":
            for text, origin in payload:
                pieces.append((text, origin, pos))
        else:
            b, t = payload
            pieces.append((t, "rep", pos))
            p = b
    if p < hi:
        pieces.append((src[p:hi], None, p))
    # build text with line map; inserted pieces go on own lines
    cur = ""
    cur_origin = None
    result = []  # (line_text, origin)

    def flush():
        nonlocal cur, cur_origin
        if cur != "" or cur_origin is not None:
            result.append((cur, cur_origin))
        cur, cur_origin = "", None

    for text, origin, pos in pieces:
        if origin is None or origin == "rep":
            # repo text (or rewrite at repo position)
            parts = text.split("\n")
            linebase = sf.line_of(pos)
            for k, part in enumerate(parts):
                if k > 0:
                    flush_line = (cur, cur_origin if cur_origin else ("repo", sf.rel, linebase + k - 1))
                    result.append(flush_line)
                    cur, cur_origin = "", None
                cur += part
                if part.strip() and cur_origin is None:
                    cur_origin = ("repo", sf.rel, linebase + k)
        else:
            if cur.strip():
                result.append((cur, cur_origin))
            elif cur:
                pass
            cur, cur_origin = "", None
            for ln in text.split("\n"):
                result.append((ln, origin))
    if cur.strip() or cur:
        result.append((cur, cur_origin if cur_origin else ("repo", sf.rel, sf.line_of(hi - 1))))
    # text norms on repo lines (N4, D1, D2) -- done on the joined text, keeping line structure
    joined = "\n".join(t for t, _ in result)
    joined = strip_doc_comments(joined, out, where)
    jm = mask_source(joined)
    joined = apply_text_norms(joined, jm, out, where)
    new_lines = joined.split("\n")
    if len(new_lines) != len(result):
        raise ExtractError("%s: internal: line structure changed by normalisation" % where)
    for (t, o), nl in zip(result, new_lines):
        if nl.strip() == "" and (o is None or o[0] == "repo"):
            continue
        out.lines.append((nl, o))


def assemble_region(spec, bundle, out, sf, it, canary):
    """lift the statements between two anchors of a function body into a function whose
    signature comes from the template"""
    rx_a, rx_b, sigc = spec.region
    where = "%s::%s[region]" % (spec.file, spec.path)
    src, mask = sf.src, sf.mask
    fnkey = spec.path + "@" + spec.opts.get("name", "region")
    l0 = sf.line_of(it.body_open)
    l1 = sf.line_of(it.end - 1)

    def find_line(rx):
        hits = []
        for ln in range(l0, l1 + 1):
            a = sf.line_starts[ln - 1]
            b = sf.line_starts[ln] - 1 if ln < len(sf.line_starts) else len(src)
            if re.search(rx, mask[a:b]):
                hits.append((ln, a, b))
        if len(hits) != 1:
            raise ExtractError("%s: region anchor /%s/ matches %d lines" % (where, rx, len(hits)))
        return hits[0]

    la, a0, _ = find_line(rx_a)
    lb, _, b1 = find_line(rx_b)
    if lb < la:
        raise ExtractError("%s: region anchors out of order" % where)
    # region must be brace balanced; a block opened on the end-anchor line is followed to its closing line
    def depth_of(seg):
        depth = 0
        for ch in seg:
            if ch in "([{":
                depth += 1
            elif ch in ")]}":
                depth -= 1
                if depth < 0:
                    raise ExtractError("%s: region not balanced" % where)
        return depth
    while depth_of(mask[a0:b1]) > 0 and lb < l1:
        lb += 1
        b1 = sf.line_starts[lb] - 1 if lb < len(sf.line_starts) else len(src)
    if depth_of(mask[a0:b1]) != 0:
        raise ExtractError("%s: region not balanced" % where)

    inserts, replaces = {}, []
    sig_text = sigc[2]
    for a in spec.attrs:
        out.emit(a, ("tmpl", spec.tmpl_line))
    out.emit(sig_text, ("tmpl", sigc[3]))
    groups = {}
    for c in spec.clauses:
        groups.setdefault(c[0], []).append(c)
    for kind in ["requires", "ensures", "decreases"]:
        if kind not in groups:
            continue
        out.emit("    " + kind, ("tmpl", groups[kind][0][3]))
        for idx, c in enumerate(groups[kind], 1):
            cid = clause_id(bundle, fnkey, kind, idx)
            out.clauses[cid] = {"fn": fnkey, "kind": kind, "idx": idx, "tags": sorted(set(c[1] or spec.tags)),
                                "text": " ".join(c[2].split()), "file": spec.file, "tmpl_line": c[3]}
            out.emit("        " + c[2].replace("\n", "\n        ") + ",", ("clause", cid))
    out.emit("{", ("tmpl", spec.tmpl_line))
    if canary:
        out.emit("let __canary_r = {", ("tmpl", spec.tmpl_line))
    # loops inside the region
    loops = find_loops(mask, a0, b1)
    for n, cl in sorted(spec.loops.items()):
        if n > len(loops):
            raise ExtractError("%s: loop %d not found in region" % (where, n))
        kw, lbp, kwname = loops[n - 1]
        lclose = match_close(mask, lbp)
        lg = {}
        for c in cl:
            lg.setdefault(c[0], []).append(c)
        if "iter" in lg:
            mm = re.search(r"\bin\b", mask[kw:lbp])
            pos = kw + mm.end()
            replaces.append((pos, pos, " %s:" % lg["iter"][0][2].strip()))
            out.count("N7", "%s: ghost iterator name on loop %d" % (where, n))
        for kind in ["invariant_except_break", "invariant", "ensures", "decreases"]:
            if kind not in lg:
                continue
            inserts.setdefault(lbp, []).append(("        " + kind, ("tmpl", lg[kind][0][3])))
            for idx, c in enumerate(lg[kind], 1):
                cid = clause_id(bundle, fnkey, "loop%d.%s" % (n, kind), idx)
                out.clauses[cid] = {"fn": fnkey, "kind": "loop%d.%s" % (n, kind), "idx": idx,
                                    "tags": sorted(set(c[1] or spec.tags)), "text": " ".join(c[2].split()),
                                    "file": spec.file, "tmpl_line": c[3]}
                inserts.setdefault(lbp, []).append(("            " + c[2].replace("\n", "\n            ") + ",", ("clause", cid)))
        for idx, c in enumerate(lg.get("proof-start", []), 1):
            cid = clause_id(bundle, fnkey, "loop%d.proof-start" % n, idx)
            out.clauses[cid] = {"fn": fnkey, "kind": "proof", "idx": idx, "tags": sorted(set(c[1] or spec.tags)),
                                "text": " ".join(c[2].split()), "file": spec.file, "tmpl_line": c[3]}
            inserts.setdefault(lbp + 1, []).append(("proof " + c[2], ("clause", cid)))
        for idx, c in enumerate(lg.get("proof-end", []), 1):
            cid = clause_id(bundle, fnkey, "loop%d.proof-end" % n, idx)
            out.clauses[cid] = {"fn": fnkey, "kind": "proof", "idx": idx, "tags": sorted(set(c[1] or spec.tags)),
                                "text": " ".join(c[2].split()), "file": spec.file, "tmpl_line": c[3]}
            inserts.setdefault(lclose, []).append(("proof " + c[2], ("clause", cid)))
    if spec.closures:
        closures = find_closures(mask, a0, b1)
        for n, cl in sorted(spec.closures.items()):
            if n > len(closures):
                raise ExtractError("%s: closure %d not found (region has %d closures)" % (where, n, len(closures)))
            bar, after, cb, ce, is_block = closures[n - 1]
            ret = [c for c in cl if c[0] == "ret"]
            if len(ret) != 1:
                raise ExtractError("%s: closure %d needs exactly one ret directive" % (where, n))
            pnames = [re.sub(r"^\s*(?:mut\s+)?(\w+).*$", r"\1", q, flags=re.S) for q in src[bar + 1:after - 1].split(",")] if after - bar > 2 else []

            def subst(t, pnames=pnames):
                return re.sub(r"\$(\d)", lambda m: pnames[int(m.group(1)) - 1] if int(m.group(1)) <= len(pnames) else m.group(0), t)
            hdr = " -> (%s)" % ret[0][2].strip()
            for kind in ["requires", "ensures"]:
                cs = [c for c in cl if c[0] == kind]
                if not cs:
                    continue
                parts = []
                for idx, c in enumerate(cs, 1):
                    cid = clause_id(bundle, fnkey, "closure%d.%s" % (n, kind), idx)
                    out.clauses[cid] = {"fn": fnkey, "kind": "closure%d.%s" % (n, kind), "idx": idx,
                                        "tags": sorted(set(c[1] or spec.tags)), "text": " ".join(c[2].split()),
                                        "file": spec.file, "tmpl_line": c[3]}
                    parts.append(subst(c[2]))
                hdr += " %s %s" % (kind, ", ".join(parts))
            if is_block:
                replaces.append((after, after, hdr + " "))
            else:
                replaces.append((after, after, hdr + " {"))
                replaces.append((ce, ce, " }"))
            out.count("N8", "%s: closure %d annotated" % (where, n))
    pidx = 0
    for p in spec.proofs:
        pidx += 1
        kind, tags, text, tl, rx = p
        cid = clause_id(bundle, fnkey, "proof", pidx)
        out.clauses[cid] = {"fn": fnkey, "kind": "proof", "idx": pidx, "tags": sorted(set(tags or spec.tags)),
                            "text": " ".join(text.split()), "file": spec.file, "tmpl_line": tl}
        if kind == "proof-start":
            inserts.setdefault(a0, []).append(("proof " + text, ("clause", cid)))
            continue
        hits = []
        for ln in range(la, lb + 1):
            a = sf.line_starts[ln - 1]
            b = sf.line_starts[ln] - 1 if ln < len(sf.line_starts) else len(src)
            if re.search(rx, mask[a:b]):
                hits.append((a, b))
        if len(hits) == 0 and kind in ("proof-before", "proof-after"):
            # a proof hint is scaffolding: when its anchor line is gone the hint is dropped and the contract is checked
            # without it (it then verifies, or a named obligation fails); ghost bindings and contract anchors stay fatal
            out.dropped.append("%s: proof hint anchored at /%s/ dropped on this tree (anchor line not found)" % (where, rx))
            out.hints_dropped.add(fnkey)
            out.clauses.pop(cid, None)
            continue
        if len(hits) != 1:
            raise ExtractError("%s: anchor /%s/ matches %d lines" % (where, rx, len(hits)))
        a, b = hits[0]
        pre = "" if kind.startswith("ghost") else "proof "
        inserts.setdefault(a if kind.endswith("-before") else b + 1, []).append((pre + text, ("clause", cid)))
    head = spec.opts.get("head")
    if head:
        # the lifted lines are the arms of a `match` inside a closure: head/tail restore the enclosing `match e {` .. `}`
        out.emit(head.replace("~", " "), ("tmpl", spec.tmpl_line))
    emit_range(sf, out, a0, b1, inserts, replaces, where)
    tail = spec.opts.get("tail")
    if tail:
        out.emit(tail.replace("~", " "), ("tmpl", spec.tmpl_line))
    if canary:
        out.emit("}; proof { assert(false); } __canary_r", ("canary", fnkey))
    out.emit("}", ("tmpl", spec.tmpl_line))
    # the dropped remainder of the function is reported
    out.dropped.append("%s: region lines %d-%d lifted; remainder of the function (lines %d-%d) not verified" % (
        where, la, lb, sf.line_of(it.start), sf.line_of(it.end - 1)))
    out.fns.append({"fn": fnkey, "file": spec.file, "lines": [la, lb], "tags": spec.tags,
                    "tmpl_line": spec.tmpl_line, "region": True, "external_body": False,
                    "canary": spec.opts.get("canary", "check"), "verus_name": spec.opts.get("name")})


def spec_all_tags(spec):
    tags = set(spec.tags)
    for c in spec.clauses:
        tags.update(c[1] or [])
    for cl in list(spec.loops.values()) + list(spec.closures.values()):
        for c in cl:
            tags.update(c[1] or [])
    for pr in spec.proofs:
        tags.update(pr[1] or [])
    return sorted(tags)


def salvage_fn(spec, bundle, out, err):
    """The function could not be brought under contract on this tree (lost anchor, changed loop or closure shape).
    Keep the rest of the bundle checkable: emit the function's contract on its real signature with an unverified body
    (external_body). The caller of assemble() must treat every property tagged on this function as UNDECIDED."""
    import copy
    fnkey = spec.path if spec.region is None else spec.path + "@" + spec.opts.get("name", "region")
    for cid in [c for c, v in out.clauses.items() if v["fn"] == fnkey]:
        del out.clauses[cid]
    out.lines[:] = []
    if spec.region is not None:
        sigc = spec.region[2]
        for a in spec.attrs:
            out.emit(a, ("tmpl", spec.tmpl_line))
        out.emit("#[verifier::external_body]", ("tmpl", spec.tmpl_line))
        out.emit(sigc[2], ("tmpl", sigc[3]))
        groups = {}
        for c in spec.clauses:
            groups.setdefault(c[0], []).append(c)
        for kind in ["requires", "ensures"]:
            if kind not in groups:
                continue
            out.emit("    " + kind, ("tmpl", groups[kind][0][3]))
            for idx, c in enumerate(groups[kind], 1):
                cid = clause_id(bundle, fnkey, kind, idx)
                out.clauses[cid] = {"fn": fnkey, "kind": kind, "idx": idx, "tags": sorted(set(c[1] or spec.tags)),
                                    "text": " ".join(c[2].split()), "file": spec.file, "tmpl_line": c[3]}
                out.emit("        " + c[2].replace("\n", "\n        ") + ",", ("clause", cid))
        out.emit("{ unimplemented!() }", ("tmpl", spec.tmpl_line))
        out.fns.append({"fn": fnkey, "file": spec.file, "lines": [0, 0], "tags": spec.tags, "tmpl_line": spec.tmpl_line,
                        "region": True, "external_body": True, "canary": "skip", "verus_name": spec.opts.get("name"),
                        "salvaged": True})
    else:
        st = copy.copy(spec)
        st.opts = dict(spec.opts)
        st.opts["stub-body"] = "1"
        st.opts["canary"] = "skip"
        st.attrs = [a for a in spec.attrs if "external_body" not in a] + ["#[verifier::external_body]"]
        st.loops, st.closures, st.proofs = {}, {}, []
        st.clauses = [c for c in spec.clauses if c[0] in ("requires", "ensures", "recommends", "returns")]
        assemble_fn(st, bundle, out, False)
        out.fns[-1]["salvaged"] = True
    out.dropped.append("%s::%s: SALVAGED on this tree (%s): body not verified, contract assumed; every property tagged on it is undecided" % (spec.file, fnkey, err))
    return {"fn": fnkey, "file": spec.file, "tags": spec_all_tags(spec), "error": str(err)}


def assemble_item(node, out):
    _, tl, rel, kind, name, opts = node
    sf = get_file(rel)
    it = sf.find_item(kind, name)
    where = "%s::%s" % (rel, name)
    text = sf.src[it.start:it.end]
    mask = sf.mask[it.start:it.end]
    replaces = []
    if "drop-derive" in opts:
        drops = set(opts["drop-derive"].split(","))
        m = re.search(r"#\[derive\(([^)]*)\)\]", mask)
        if m:
            ds = [d.strip() for d in m.group(1).split(",") if d.strip()]
            keep = [d for d in ds if d not in drops]
            for d in ds:
                if d in drops:
                    out.count("D3", "%s: derive(%s) dropped" % (where, d))
            new = "#[derive(%s)]" % ", ".join(keep) if keep else ""
            replaces.append((it.start + m.start(), it.start + m.end(), new))
    if "strip-attr" in opts:
        for an in opts["strip-attr"].split(","):
            for m in re.finditer(r"#\[%s\b" % re.escape(an), mask):
                b = mask.index("[", m.start())
                e = match_close(mask, b) + 1
                replaces.append((it.start + m.start(), it.start + e, ""))
                out.count("D4", "%s: attribute #[%s(..)] dropped" % (where, an))
    if kind == "const":
        # N1
        m = re.search(r":\s*&\s*str\b", mask)
        if m:
            replaces.append((it.start + m.start(), it.start + m.end(), ": &'static str"))
            out.count("N1", where)
        # N6
        if "ensures" in opts:
            m = re.match(r"(\s*(?:pub(?:\([^)]*\))?\s+)?)const\s+(\w+)\s*:\s*([^=]+?)\s*=\s*(.*);\s*$", text, re.S)
            if not m:
                raise ExtractError("%s: N6 shape not found" % where)
            pf = ("proof { %s; } " % opts["proof"]) if "proof" in opts else ""
            new = "%sexec const %s: %s ensures %s == %s { %s%s }" % (m.group(1), m.group(2), m.group(3), m.group(2), opts["ensures"], pf, m.group(4))
            out.count("N6", where)
            new = apply_text_norms(new, mask_source(new), out, where)
            out.emit(new, ("repo", rel, sf.line_of(it.start)))
            return
    if "add-attr" in opts:
        out.emit(opts["add-attr"].replace("~", " "), ("tmpl", tl))
    emit_range(sf, out, it.start, it.end, {}, replaces, where)


class FnLines(list):
    pass


def assemble(template_path, canary=False, force_salvage=None):
    bundle = os.path.splitext(os.path.basename(template_path))[0]
    out = Out()
    out.hoisted = {}
    nodes = parse_template(template_path)
    pending_hoist = []
    meta = {}
    tag_regions = []
    # two passes: functions first into sub-buffers so hoisted items can be emitted anywhere
    bufs = []
    salvaged = []
    mod_stack = []   # (name, depth at which the module was opened)
    depth = 0
    for node in nodes:
        if node[0] == "text":
            code = mask_source(node[2]) if ('"' in node[2] or "/" in node[2] or "'" in node[2]) else node[2]
            mm = re.match(r"\s*(?:pub(?:\([a-z]+\))?\s+)?mod\s+(\w+)\s*\{", code)
            if mm:
                mod_stack.append((mm.group(1), depth))
            depth += code.count("{") - code.count("}")
            while mod_stack and depth <= mod_stack[-1][1]:
                mod_stack.pop()
        sub = Out()
        sub.hoisted = out.hoisted
        sub.clauses = out.clauses
        sub.fns = out.fns
        sub.norm = out.norm
        sub.dropped = out.dropped
        sub.hints_dropped = out.hints_dropped
        if node[0] == "text":
            sub.lines.append((node[2], node[1] if isinstance(node[1], tuple) else ("tmpl", node[1])))
        elif node[0] == "item":
            assemble_item(node, sub)
        elif node[0] == "fn":
            try:
                sp = node[1]
                fk = sp.path if sp.region is None else sp.path + "@" + sp.opts.get("name", "region")
                if force_salvage and fk in force_salvage:
                    raise ExtractError("%s::%s: %s" % (sp.file, fk, force_salvage[fk]))
                assemble_fn(node[1], bundle, sub, canary)
            except ExtractError as e:
                if os.environ.get("VERIF_NO_SALVAGE"):
                    raise
                try:
                    salvaged.append(salvage_fn(node[1], bundle, sub, e))
                except ExtractError:
                    raise e
        elif node[0] == "hoisted":
            bufs.append(("hoisted", node))
            continue
        elif node[0] == "meta":
            w = node[2].split(None, 2)
            if len(w) >= 3:
                meta[w[1]] = w[2]
        elif node[0] == "tags":
            tag_regions.append((node[1], node[2]))
        if node[0] == "fn":
            fl = FnLines(sub.lines)
            fl.fn = out.fns[-1]
            fl.fn["module"] = "::".join(m for m, _ in mod_stack)
            if "vmodule" in node[1].opts:
                # an `impl T { .. }` block placed in another module than T: Verus names its functions by T's module
                fl.fn["module"] = "" if node[1].opts["vmodule"] == "root" else node[1].opts["vmodule"]
            bufs.append(("lines", fl))
        else:
            bufs.append(("lines", sub.lines))
    used_hoist = set()
    for kind, payload in bufs:
        if kind == "lines":
            if payload and isinstance(payload, FnLines):
                payload.fn["asm_lines"] = [len(out.lines) + 1, len(out.lines) + len(payload)]
            out.lines.extend(payload)
        else:
            _, tl, rel, fn, hopts = payload
            used_hoist.add((rel, fn))
            for (kw, name, ty, val, line) in out.hoisted.get((rel, fn), []):
                if kw == "const" and re.match(r"&\s*str$", ty):
                    # N1 on a hoisted literal: same text as a module-level `const X: &str = "..";`
                    out.count("N1", "%s::%s::%s" % (rel, fn, name))
                    out.lines.append(("const %s: &'static str = %s;" % (name, val), ("repo", rel, line)))
                    continue
                if ("ensures." + name) in hopts:
                    # N6 on a hoisted const whose initialiser is an exec call (e.g. `PREFIX.len()`)
                    pf = ("proof { %s; } " % hopts["proof." + name]) if ("proof." + name) in hopts else ""
                    out.count("N6", "%s::%s::%s" % (rel, fn, name))
                    out.lines.append(("exec %s %s: %s ensures %s == %s { %s%s }" % (kw, name, ty, name, hopts["ensures." + name], pf, val), ("repo", rel, line)))
                    continue
                out.lines.append(("exec %s %s: %s ensures %s == %s { %s }" % (kw, name, ty, name, val, val), ("repo", rel, line)))
    for key, lst in out.hoisted.items():
        if lst and key not in used_hoist:
            raise ExtractError("%s::%s has fn-local items but the template has no //@hoisted directive" % key)
    text = "\n".join(t for t, _ in out.lines) + "\n"
    linemap = [o for _, o in out.lines]
    return {
        "bundle": bundle, "text": text, "linemap": linemap, "clauses": out.clauses, "fns": out.fns,
        "normalisations": out.norm, "dropped": out.dropped, "meta": meta, "tag_regions": tag_regions,
        "template": template_path, "salvaged": salvaged, "hints_dropped": sorted(out.hints_dropped),
    }


if __name__ == "__main__":
    import argparse
    ap = argparse.ArgumentParser()
    ap.add_argument("template")
    ap.add_argument("-o", "--out", required=True)
    ap.add_argument("--canary", action="store_true")
    a = ap.parse_args()
    try:
        r = assemble(a.template, a.canary)
    except ExtractError as e:
        print("UNDECIDED extract: %s" % e)
        sys.exit(2)
    open(a.out, "w").write(r["text"])
    json.dump({k: v for k, v in r.items() if k != "text"}, open(a.out + ".map.json", "w"), indent=1)
    print("assembled %s: %d lines, %d fns, %d clauses" % (a.out, len(r["linemap"]), len(r["fns"]), len(r["clauses"])))
    for sv in r["salvaged"]:
        print("SALVAGED %s (%s): %s" % (sv["fn"], ",".join(sv["tags"]), sv["error"]))
