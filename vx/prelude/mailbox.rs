// ---- TRUSTED (A-STUB, A-GLUE): tokio's mpsc mailbox and oneshot reply channel as seen by a handle
pub mod oneshot {
    use super::*;
    pub struct Sender<T> { pub t: Option<T> }
    impl<T> Sender<T> {
        #[verifier::external_body]
        pub fn send(self, t: T) -> Result<(), T> { unimplemented!() }
    }
    /// receiving half: awaiting it yields the reply or an error (its `Future` impl sits outside the verus! block; the
    /// awaited value is unconstrained)
    pub struct Receiver<T> { pub t: Option<T> }
    pub struct RecvError { pub x: u8 }
    #[verifier::external_body]
    pub fn channel<T>() -> (r: (Sender<T>, Receiver<T>)) { unimplemented!() }
}
pub mod mpsc {
    use super::*;
    /// the actor's mailbox: `send` puts exactly this request into it (or fails when the actor is gone)
    pub struct Sender<T> { pub x: u64, pub t: Option<T> }
    pub struct SendError<T> { pub t: T }
    pub uninterp spec fn sent<T>(s: Sender<T>, v: T) -> bool;
    pub mod error { pub enum TrySendError<T> { Full(T), Closed(T) } }
    impl<T> Sender<T> {
        #[verifier::external_body]
        pub async fn send(&self, value: T) -> (r: Result<(), SendError<T>>)
            ensures r.is_ok() ==> sent(*self, value)
        { unimplemented!() }
        #[verifier::external_body]
        pub fn try_send(&self, value: T) -> (r: Result<(), error::TrySendError<T>>)
            ensures r.is_ok() ==> sent(*self, value)
        { unimplemented!() }
    }
}
