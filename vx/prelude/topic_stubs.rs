// ---- TRUSTED (A-STUB, A-GLUE): handles and delegates the topic actor / managers talk to. Their methods act
// through `&self` on shared state (mailboxes, RwLock) that no contract in this bundle observes.
pub struct TopicManagerDelegate { x: u8 }
impl TopicManagerDelegate {
    #[verifier::external_body]
    pub fn delete(&self, topic_name: &TopicName) { }
}
pub struct SubscriptionManagerDelegate { x: u8 }
pub struct PushSubscriptionsRegistry { x: u8 }
/// `Subscription` handle: name, weak topic reference, internal id (mailbox and observer not modelled)
pub struct Subscription { pub name: SubscriptionName, pub internal_id: u32 }
pub struct SubscriptionInfo { pub name: SubscriptionName }
impl Subscription {
    // src/subscriptions/subscription.rs:70 Subscription::new: copies info.name and internal_id, starts the actor task
    #[verifier::external_body]
    pub fn new(info: SubscriptionInfo, internal_id: u32, topic: Arc<Topic>, push_registry: PushSubscriptionsRegistry,
               delegate: SubscriptionManagerDelegate) -> (r: Self)
        ensures r.name == info.name, r.internal_id == internal_id
    { unimplemented!() }
}
/// `Topic` handle
pub struct Topic { pub name: TopicName, pub internal_id: u32 }
impl Topic {
    // src/topics/topic.rs:36 Topic::new: copies info.name and internal_id, starts the actor task
    #[verifier::external_body]
    pub fn new(delegate: TopicManagerDelegate, info: TopicInfo, internal_id: u32) -> (r: Self)
        ensures r.name == info.name, r.internal_id == internal_id
    { unimplemented!() }
}
