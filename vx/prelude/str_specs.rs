// ---- TRUSTED (A-STR): byte-level contracts of the `str` methods the name parsers use.
// `str::len` and range slicing (`get(a..)`, `get(..b)`) come from vstd's own specifications.
pub open spec fn is_prefix(p: Seq<u8>, s: Seq<u8>) -> bool { p.len() <= s.len() && s.subrange(0, p.len() as int) == p }
/// number of leading / trailing bytes equal to c
pub open spec fn lead(s: Seq<u8>, c: u8) -> int decreases s.len() {
    if s.len() > 0 && s[0] == c { 1 + lead(s.subrange(1, s.len() as int), c) } else { 0 }
}
pub open spec fn trail(s: Seq<u8>, c: u8) -> int decreases s.len() {
    if s.len() > 0 && s[s.len() - 1] == c { 1 + trail(s.subrange(0, s.len() - 1), c) } else { 0 }
}
pub open spec fn trimmed(s: Seq<u8>, c: u8) -> Seq<u8> {
    if lead(s, c) >= s.len() { Seq::empty() } else { s.subrange(lead(s, c), s.len() - trail(s, c)) }
}
pub mod str_ax {
    use super::*;
    /// byte string a `Pattern` argument stands for (only `char` < 128 and `&str` are given a meaning)
    pub uninterp spec fn pat<P>(p: P) -> Seq<u8>;
    pub uninterp spec fn bx(b: Box<str>) -> Seq<u8>;
    pub broadcast axiom fn pat_char_ascii(c: char) ensures (c as u32) < 128 ==> #[trigger] pat::<char>(c) == seq![c as u8];
    pub broadcast axiom fn pat_slash() ensures #[trigger] pat::<char>('/') == seq![47u8];
    pub broadcast axiom fn pat_str(p: &str) ensures #[trigger] pat::<&str>(p) == p.spec_bytes();
    pub broadcast axiom fn len_bound(s: &str) ensures #[trigger] s.spec_bytes().len() <= isize::MAX;
    // TRUSTED (A-STR): UTF-8 fact used for the completeness direction only: in the byte view of a &str every ASCII
    // byte is a complete character, so the positions of that byte and right after it are char boundaries
    pub axiom fn ascii_boundaries(s: &str, i: int)
        requires 0 <= i < s.spec_bytes().len(), s.spec_bytes()[i] < 0x80u8
        ensures vstd::utf8::is_char_boundary(s.spec_bytes(), i), vstd::utf8::is_char_boundary(s.spec_bytes(), i + 1);
    pub axiom fn end_boundaries(s: &str)
        ensures vstd::utf8::is_char_boundary(s.spec_bytes(), 0), vstd::utf8::is_char_boundary(s.spec_bytes(), s.spec_bytes().len() as int);
}
pub use str_ax::{pat, bx};

pub assume_specification<P> [str::starts_with] (s: &str, p: P) -> (r: bool)
    where P: std::str::pattern::Pattern
    ensures r == is_prefix(pat(p), s.spec_bytes());

// `find` for a single-byte (ASCII) pattern: index of the first occurrence
pub assume_specification<P> [str::find] (s: &str, p: P) -> (r: Option<usize>)
    where P: std::str::pattern::Pattern
    ensures pat(p).len() == 1 ==> (match r {
        Some(i) => i < s.spec_bytes().len() && s.spec_bytes()[i as int] == pat(p)[0]
                    && forall|j: int| 0 <= j < i ==> s.spec_bytes()[j] != pat(p)[0],
        None => forall|j: int| 0 <= j < s.spec_bytes().len() ==> s.spec_bytes()[j] != pat(p)[0],
    });

pub assume_specification<I> [str::get] (s: &str, i: I) -> (o: Option<&<I as core::slice::SliceIndex<str>>::Output>)
    where I: core::slice::SliceIndex<str>
    ensures call_ensures(<I as core::slice::SliceIndex<str>>::get, (i, s), o);

pub assume_specification<P> [str::trim_matches] (s: &str, p: P) -> (r: &str)
    where P: std::str::pattern::Pattern, for<'a> <P as std::str::pattern::Pattern>::Searcher<'a>: std::str::pattern::DoubleEndedSearcher<'a>
    ensures pat(p).len() == 1 ==> r.spec_bytes() == trimmed(s.spec_bytes(), pat(p)[0]);

pub assume_specification<'a, 'b> [<Box<str> as From<&'a str>>::from] (s: &'b str) -> (r: Box<str>)
    ensures bx(r) == s.spec_bytes();
