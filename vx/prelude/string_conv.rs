// ---- TRUSTED (A-STR): conversions between `&str` and `String` that copy the text (vstd specifies `to_string` /
// `to_owned` on `str`, `String::clone`, `String::new`; these two are the common remaining spellings)
pub assume_specification<'a, 'b> [<String as From<&'a str>>::from] (s: &'b str) -> (r: String)
    ensures r@ == s@;
pub mod string_conv_ax {
    use vstd::prelude::*;
    // `Display for String` writes the string itself, so `String::to_string` is a copy (vstd ships this axiom for `str`)
    pub broadcast axiom fn to_string_ensures_for_string(s: &String, r: String)
        ensures #[trigger] vstd::string::to_string_from_display_ensures::<String>(s, r) <==> s@ == r@;
}
