// ---- TRUSTED (A-STUB, A-DERIVE): resource names as opaque hash-map keys. The real structs hold two Box<str>
// and derive PartialEq/Eq/Hash/Clone; here equality is structural equality of the stand-in and the derived
// Hash/Eq are assumed to obey vstd's key model (axioms in `name_ax`).
pub struct TopicName { pub project_id: Seq<char>, pub topic_id: Seq<char> }
pub struct SubscriptionName { pub project_id: Seq<char>, pub subscription_id: Seq<char> }
