// ---- TRUSTED (A-STUB, A-GLUE): effect-free stand-ins for the collaborators of the subscription actor.
// Their methods act through `&self` on shared state that no contract in this bundle observes.
pub struct Weak<T> { pub t: Option<Arc<T>> }
impl<T> Weak<T> {
    #[verifier::external_body]
    pub fn upgrade(&self) -> (r: Option<Arc<T>>) { unimplemented!() }
}
pub struct TopicName { pub project_id: Box<str>, pub topic_id: Box<str> }
impl Clone for TopicName {
    #[verifier::external_body]
    fn clone(&self) -> (r: Self) ensures r == *self { unimplemented!() }
}
impl TopicName {
    #[verifier::external_body]
    pub fn deleted() -> (r: TopicName) { unimplemented!() }
}
pub struct SubscriptionName { pub project_id: Box<str>, pub subscription_id: Box<str> }
impl Clone for SubscriptionName {
    #[verifier::external_body]
    fn clone(&self) -> (r: Self) ensures r == *self { unimplemented!() }
}
pub enum RemoveSubscriptionError { Closed }
pub struct Topic { pub name: TopicName }
impl Topic {
    #[verifier::external_body]
    pub async fn remove_subscription(&self, name: SubscriptionName) -> Result<(), RemoveSubscriptionError> { unimplemented!() }
}
pub struct SubscriptionObserver { x: u8 }
impl SubscriptionObserver {
    #[verifier::external_body]
    pub fn notify_new_messages_available(&self) { }
    #[verifier::external_body]
    pub fn notify_deleted(&self) { }
}
pub struct PushConfig { pub endpoint: String }
impl Clone for PushConfig {
    #[verifier::external_body]
    fn clone(&self) -> (r: Self) ensures r == *self { unimplemented!() }
}
pub struct PushSubscriptionsRegistry { x: u8 }
impl PushSubscriptionsRegistry {
    #[verifier::external_body]
    pub fn set(&self, name: SubscriptionName, config: Option<PushConfig>) { }
}
pub struct SubscriptionManagerDelegate { x: u8 }
impl SubscriptionManagerDelegate {
    #[verifier::external_body]
    pub fn delete(&self, name: &SubscriptionName) { }
}
pub mod oneshot {
    use super::*;
    pub struct Sender<T> { pub t: Option<T> }
    impl<T> Sender<T> {
        #[verifier::external_body]
        pub fn send(self, t: T) -> Result<(), T> { unimplemented!() }
    }
    /// receiving half: awaiting it yields the reply or an error (its `Future` impl sits outside the verus! block; the
    /// awaited value is unconstrained)
    pub struct Receiver<T> { pub t: Option<T> }
    pub struct RecvError { pub x: u8 }
    #[verifier::external_body]
    pub fn channel<T>() -> (r: (Sender<T>, Receiver<T>)) { unimplemented!() }
}
pub mod mpsc {
    use super::*;
    /// the actor's mailbox: `send` puts exactly this request into it (or fails when the actor is gone)
    pub struct Sender<T> { pub x: u64, pub t: Option<T> }
    pub struct SendError<T> { pub t: T }
    pub uninterp spec fn sent<T>(s: Sender<T>, v: T) -> bool;
    impl<T> Sender<T> {
        #[verifier::external_body]
        pub async fn send(&self, value: T) -> (r: Result<(), SendError<T>>)
            ensures r.is_ok() ==> sent(*self, value)
        { unimplemented!() }
    }
}
