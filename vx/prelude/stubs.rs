// ---- TRUSTED (A-STUB): effect-free stand-ins for tokio::sync::Notify, bytes::Bytes, SystemTime
pub struct Notify { x: u8 }
impl Notify {
    #[verifier::external_body]
    pub fn new() -> Self { Notify { x: 0 } }
    #[verifier::external_body]
    pub fn notify_waiters(&self) { }
    #[verifier::external_body]
    pub fn notify_one(&self) { }
}
#[derive(Debug)]
pub struct Bytes { pub v: Vec<u8> }
#[derive(Debug, Clone, Copy)]
pub struct SystemTime { pub t: u64 }
impl SystemTime {
    pub const UNIX_EPOCH: SystemTime = SystemTime { t: 0 };
    #[verifier::external_body]
    pub fn now() -> SystemTime { unimplemented!() }
}
