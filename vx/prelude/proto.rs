// ---- TRUSTED (A-STUB): field-exact mirrors of the prost-generated request structs (only the fields the
// verified regions read; a renamed or retyped field makes the assembled file fail to compile -> UNDECIDED)
pub struct SubscriptionProto { pub ack_deadline_seconds: i32 }
pub struct StreamingPullRequest {
    pub subscription: String,
    pub ack_ids: Vec<String>,
    pub modify_deadline_seconds: Vec<i32>,
    pub modify_deadline_ack_ids: Vec<String>,
    pub stream_ack_deadline_seconds: i32,
    pub client_id: String,
    pub max_outstanding_messages: i64,
    pub max_outstanding_bytes: i64,
}
