// ---- TRUSTED (A-STD): specs for std functions that vstd does not specify
pub open spec fn is_min<T: Ord>(m: T, s: Set<T>) -> bool {
    s.contains(m) && forall|k: T| #[trigger] s.contains(k) ==> OrdSpec::cmp_spec(&m, &k) != Ordering::Greater
}
pub assume_specification<T, A> [std::collections::BTreeSet::<T, A>::first] (s: &std::collections::BTreeSet<T, A>) -> (r: std::option::Option<&T>)
    where A: std::alloc::Allocator + std::clone::Clone, T: Ord
    ensures
        r.is_none() <==> s@.len() == 0,
        r.is_some() && T::obeys_cmp_spec() ==> is_min(*r.unwrap(), s@),
;
pub assume_specification<T, A> [std::collections::BTreeSet::<T, A>::pop_first] (s: &mut std::collections::BTreeSet<T, A>) -> (r: std::option::Option<T>)
    where A: std::alloc::Allocator + std::clone::Clone, T: Ord
    ensures
        r.is_none() <==> old(s)@.len() == 0,
        r.is_none() ==> final(s)@ == old(s)@,
        r.is_some() ==> final(s)@ == old(s)@.remove(r.unwrap()) && old(s)@.contains(r.unwrap()),
        r.is_some() && T::obeys_cmp_spec() ==> is_min(r.unwrap(), old(s)@),
;
// the two `unsafe { .. unwrap_unchecked() }` calls become proof obligations through this precondition
pub assume_specification<T> [std::option::Option::<T>::unwrap_unchecked] (o: std::option::Option<T>) -> (r: T)
    requires o.is_some()
    ensures r == o.unwrap()
;
// `Option::is_some_and(f)` == `map(f).unwrap_or(false)` (not specified by vstd)
pub assume_specification<T, F: FnOnce(T) -> bool> [std::option::Option::<T>::is_some_and] (o: std::option::Option<T>, f: F) -> (r: bool)
    requires o.is_some() ==> f.requires((o.unwrap(),))
    ensures o.is_none() ==> !r, o.is_some() ==> f.ensures((o.unwrap(),), r)
;
pub assume_specification<T, A> [std::collections::VecDeque::<T, A>::is_empty] (v: &std::collections::VecDeque<T, A>) -> (r: bool)
    where A: std::alloc::Allocator
    ensures r == (v@.len() == 0)
;
