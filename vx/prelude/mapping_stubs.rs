// ---- TRUSTED (A-STUB, A-LIB): byte buffers, timestamps, proto structs and text encoders used by the mapping code.
pub mod enc_ax {
    use super::*;
    /// decimal rendering of a u64 (`Display for u64`), injective
    pub uninterp spec fn display_u64(v: u64) -> Seq<char>;
    pub broadcast axiom fn display_u64_injective(a: u64, b: u64)
        ensures #[trigger] display_u64(a) == #[trigger] display_u64(b) ==> a == b;
    /// base64 STANDARD encoding of a byte string, injective
    pub uninterp spec fn b64(bytes: Seq<u8>) -> Seq<char>;
    pub broadcast axiom fn b64_injective(a: Seq<u8>, b: Seq<u8>)
        ensures #[trigger] b64(a) == #[trigger] b64(b) ==> a == b;
    // TRUSTED (A-STD): String's Hash/Eq obey vstd's hash-map key model (vstd ships this axiom for integers only)
    pub broadcast axiom fn axiom_string_key_model()
        ensures #[trigger] vstd::std_specs::hash::obeys_key_model::<String>();
    /// SystemTime -> prost Timestamp conversion, injective
    pub uninterp spec fn ts_of(t: SystemTime) -> Timestamp;
}
pub use enc_ax::{display_u64, b64, ts_of};

pub struct Bytes { pub v: Vec<u8> }
impl View for Bytes { type V = Seq<u8>; open spec fn view(&self) -> Seq<u8> { self.v@ } }
impl vstd::std_specs::convert::FromSpecImpl<Vec<u8>> for Bytes {
    open spec fn obeys_from_spec() -> bool { true }
    open spec fn from_spec(v: Vec<u8>) -> Bytes { Bytes { v } }
}
impl From<Vec<u8>> for Bytes {
    fn from(v: Vec<u8>) -> (r: Bytes) { Bytes { v } }
}
impl Bytes {
    // bytes::Bytes::to_vec (via Deref<[u8]>): a copy of the bytes
    #[verifier::external_body]
    pub fn to_vec(&self) -> (r: Vec<u8>) ensures r@ == self@ { unimplemented!() }
    // bytes::Bytes::len / is_empty: the number of bytes
    pub fn len(&self) -> (r: usize) ensures r == self@.len() { self.v.len() }
    pub fn is_empty(&self) -> (r: bool) ensures r == (self@.len() == 0) { self.v.len() == 0 }
}
impl Clone for Bytes {
    #[verifier::external_body]
    fn clone(&self) -> (r: Self) ensures r@ == self@ { unimplemented!() }
}
#[derive(Clone, Copy)]
pub struct SystemTime { pub t: u64 }
impl SystemTime { pub const UNIX_EPOCH: SystemTime = SystemTime { t: 0 }; }
pub struct Timestamp { pub seconds: i64, pub nanos: i32 }
pub mod prost_types {
    pub use super::Timestamp;
}
impl vstd::std_specs::convert::FromSpecImpl<SystemTime> for Timestamp {
    open spec fn obeys_from_spec() -> bool { true }
    open spec fn from_spec(t: SystemTime) -> Timestamp { ts_of(t) }
}
impl From<SystemTime> for Timestamp {
    #[verifier::external_body]
    fn from(t: SystemTime) -> (r: Timestamp) { unimplemented!() }
}
// field-exact mirrors of the prost structs (only fields the mapping functions touch; all of them for the two built here)
pub struct PubsubMessage {
    pub data: Vec<u8>,
    pub attributes: HashMap<String, String>,
    pub message_id: String,
    pub publish_time: Option<Timestamp>,
    pub ordering_key: String,
}
pub struct ReceivedMessage {
    pub ack_id: String,
    pub message: Option<PubsubMessage>,
    pub delivery_attempt: i32,
}
