// ---- TRUSTED (A-STUB): tonic::Status reduced to its code; error-message text is not modelled
#[derive(Debug, PartialEq, Eq, Clone, Copy)]
pub enum Code { Ok, Cancelled, InvalidArgument, NotFound, AlreadyExists, FailedPrecondition, Unimplemented, Internal }
#[derive(Debug)]
pub struct Status { pub code: Code }
impl Status {
    #[verifier::external_body]
    pub fn invalid_argument<S: Into<String>>(message: S) -> (r: Status) ensures r.code == Code::InvalidArgument { unimplemented!() }
    #[verifier::external_body]
    pub fn not_found<S: Into<String>>(message: S) -> (r: Status) ensures r.code == Code::NotFound { unimplemented!() }
    #[verifier::external_body]
    pub fn already_exists<S: Into<String>>(message: S) -> (r: Status) ensures r.code == Code::AlreadyExists { unimplemented!() }
    #[verifier::external_body]
    pub fn internal<S: Into<String>>(message: S) -> (r: Status) ensures r.code == Code::Internal { unimplemented!() }
    #[verifier::external_body]
    pub fn failed_precondition<S: Into<String>>(message: S) -> (r: Status) ensures r.code == Code::FailedPrecondition { unimplemented!() }
}
#[verifier::external_body]
pub fn format_stub() -> String { unimplemented!() }
/// status code of an error result
pub open spec fn err_code<T>(r: Result<T, Status>) -> Option<Code> {
    match r { Ok(_) => None, Err(e) => Some(e.code) }
}
