// ---- TRUSTED (A-STUB): stand-in for tokio::time::Instant -- nanoseconds since an arbitrary origin.
// Only order, `now()`, `+ Duration`, `duration_since` (saturating) and `checked_add` are modelled.
#[derive(Debug, Copy, Clone, Hash, PartialEq, Eq, PartialOrd, Ord)]
pub struct Instant { pub ns: u64 }
impl PartialEqSpecImpl for Instant {
    open spec fn obeys_eq_spec() -> bool { true }
    open spec fn eq_spec(&self, other: &Instant) -> bool { self.ns == other.ns }
}
impl PartialOrdSpecImpl for Instant {
    open spec fn obeys_partial_cmp_spec() -> bool { true }
    open spec fn partial_cmp_spec(&self, other: &Instant) -> Option<Ordering> {
        PartialOrdSpec::partial_cmp_spec(&self.ns, &other.ns)
    }
}
impl OrdSpecImpl for Instant {
    open spec fn obeys_cmp_spec() -> bool { true }
    open spec fn cmp_spec(&self, other: &Instant) -> Ordering {
        OrdSpec::cmp_spec(&self.ns, &other.ns)
    }
}
/// largest instant the stand-in can represent (real tokio Instants panic on overflow as well)
pub open spec fn instant_max() -> int { 0xffff_ffff_ffff_ffff }
/// upper bound assumed for the clock: 2^60 ns (36 years) after the stand-in's origin
pub open spec fn now_max() -> int { 0x1000_0000_0000_0000 }
pub uninterp spec fn dur_ns(d: Duration) -> nat;
impl Instant {
    /// nanoseconds since the arbitrary origin
    pub open spec fn v(&self) -> int { self.ns as int }
    // A-ARITH / A-STUB: the clock never runs before EPOCH (see DESIGN §7) and stays below now_max()
    #[verifier::external_body]
    pub fn now() -> (r: Instant)
        ensures epoch().v() <= r.v() <= now_max()
    { unimplemented!() }
    #[verifier::external_body]
    pub fn duration_since(&self, earlier: Instant) -> (d: Duration)
        ensures dur_ns(d) == if self.v() >= earlier.v() { (self.v() - earlier.v()) as nat } else { 0 }
    { unimplemented!() }
    #[verifier::external_body]
    pub fn checked_add(&self, d: Duration) -> (r: Option<Instant>)
        ensures r.is_some() ==> r.unwrap().v() == self.v() + dur_ns(d),
                self.v() + dur_ns(d) <= instant_max() ==> r.is_some()
    { unimplemented!() }
}
impl vstd::std_specs::ops::AddSpecImpl<Duration> for Instant {
    open spec fn obeys_add_spec() -> bool { false }
    open spec fn add_req(self, d: Duration) -> bool { self.v() + dur_ns(d) <= instant_max() }
    open spec fn add_spec(self, d: Duration) -> Instant { arbitrary() }
}
impl std::ops::Add<Duration> for Instant {
    type Output = Instant;
    #[verifier::external_body]
    fn add(self, d: Duration) -> (r: Instant)
        ensures r.v() == self.v() + dur_ns(d)
    { unimplemented!() }
}

pub assume_specification [Duration::as_micros] (d: &Duration) -> (r: u128)
    ensures r == dur_ns(*d) / 1000;
pub assume_specification [Duration::as_nanos] (d: &Duration) -> (r: u128)
    ensures r == dur_ns(*d);
pub assume_specification [Duration::from_micros] (us: u64) -> (r: Duration)
    ensures dur_ns(r) == us * 1000;
pub assume_specification [Duration::from_secs] (s: u64) -> (r: Duration)
    ensures dur_ns(r) == s * 1_000_000_000;
pub assume_specification [Duration::as_secs] (d: &Duration) -> (r: u64)
    ensures r == dur_ns(*d) / 1_000_000_000;

// lazy_static! { static ref EPOCH: Instant = Instant::now(); }  -- an arbitrary fixed instant
pub struct EpochCell;
pub uninterp spec fn epoch() -> Instant;
impl std::ops::Deref for EpochCell {
    type Target = Instant;
    #[verifier::external_body]
    fn deref(&self) -> (r: &Instant) ensures *r == epoch() { unimplemented!() }
}
pub exec static EPOCH: EpochCell = EpochCell;
