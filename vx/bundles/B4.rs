//@bundle title topic side: message ids, topic actor, topic / subscription manager state
#![feature(allocator_api)]
#![allow(unused_imports, dead_code, unused_variables, unused_mut)]
use vstd::prelude::*;
use vstd::std_specs::hash::*;
use vstd::std_specs::iter::*;
use std::collections::hash_map::Entry;
use std::collections::HashMap;
use std::sync::Arc;

verus! {

broadcast use {
    vstd::std_specs::hash::group_hash_axioms,
    vstd::std_specs::iter::group_iter_axioms,
    name_ax::axiom_topic_name_key, name_ax::axiom_subscription_name_key, sort_ax::sorted_len,
};

//@include prelude/stubs.rs

// ======================================================================================
// resource names as hash-map keys (parsing is verified in bundle B3)
//@item src/topics/topic_name.rs struct TopicName drop-derive=Clone,Debug
//@item src/subscriptions/subscription_name.rs struct SubscriptionName drop-derive=Clone,Debug
// TRUSTED (A-DERIVE): derived Clone is field-wise; derived Eq/Hash obey vstd's hash-map key model
impl Clone for TopicName {
    #[verifier::external_body]
    fn clone(&self) -> (r: Self) ensures r == *self { unimplemented!() }
}
impl Clone for SubscriptionName {
    #[verifier::external_body]
    fn clone(&self) -> (r: Self) ensures r == *self { unimplemented!() }
}
impl TopicName {
    pub closed spec fn proj(&self) -> Seq<char> { self.project_id@ }
//@fn src/topics/topic_name.rs TopicName::is_in_project tags=C10,C13
//@ ret r
//@ ensures[C10,C13] r == (self.proj() == project_id@)
//@end
}
impl SubscriptionName {
    pub closed spec fn proj(&self) -> Seq<char> { self.project_id@ }
//@fn src/subscriptions/subscription_name.rs SubscriptionName::is_in_project tags=C10,C13
//@ ret r
//@ ensures[C10,C13] r == (self.proj() == project_id@)
//@end
//@fn src/subscriptions/subscription_name.rs SubscriptionName::project_id tags=C10
//@ ret r
//@ ensures[C10] r@ == self.proj()
//@end
}
pub mod name_ax {
    use super::*;
    pub broadcast axiom fn axiom_topic_name_key()
        ensures #[trigger] obeys_key_model::<TopicName>();
    pub broadcast axiom fn axiom_subscription_name_key()
        ensures #[trigger] obeys_key_model::<SubscriptionName>();
}

// ======================================================================================
// src/topics/topic_message.rs
//@item src/topics/topic_message.rs struct MessageId drop-derive=Debug,Hash
//@item src/topics/topic_message.rs struct TopicMessage drop-derive=Debug

/// C09: id = (topic internal id << 32) | per-topic counter
pub open spec fn mid(topic: u32, local: u32) -> u64 {
    ((topic as u64) << 32) | (local as u64)
}
impl MessageId {
//@fn src/topics/topic_message.rs MessageId::new tags=C08,C09
//@ ret r
//@ ensures[C08,C09] r.value == mid(topic_internal_id, topic_local_message_id)
//@end
}
impl TopicMessage {
//@fn src/topics/topic_message.rs TopicMessage::new tags=C09
//@ ret r
//@ ensures[C09] r.data == data, r.attributes == attributes
//@end

//@fn src/topics/topic_message.rs TopicMessage::publish tags=C09
//@ ensures[C09] final(self).id == id, final(self).published_at == published_at
//@ # payload and attributes are not touched by publishing
//@ ensures[C09] final(self).data == old(self).data, final(self).attributes == old(self).attributes
//@end
}

//@tags C08 C09
/// C09: ids are injective in (topic internal id, per-topic counter): no two messages share an id
pub proof fn lemma_mid_injective(t1: u32, l1: u32, t2: u32, l2: u32)
    ensures mid(t1, l1) == mid(t2, l2) ==> t1 == t2 && l1 == l2
{
    assert(((t1 as u64) << 32 | (l1 as u64)) == ((t2 as u64) << 32 | (l2 as u64)) ==> t1 == t2 && l1 == l2) by (bit_vector);
}
/// C08: within one topic ids increase strictly with the counter
pub proof fn lemma_mid_monotone(t: u32, l1: u32, l2: u32)
    ensures l1 < l2 ==> mid(t, l1) < mid(t, l2)
{
    assert(l1 < l2 ==> ((t as u64) << 32 | (l1 as u64)) < ((t as u64) << 32 | (l2 as u64))) by (bit_vector);
}
//@tags

// ======================================================================================
// src/topics/topic_actor.rs
//@include prelude/topic_stubs.rs
//@item src/topics/topic.rs struct TopicInfo drop-derive=Debug,Clone
impl TopicInfo {
//@fn src/topics/topic.rs TopicInfo::new tags=C10
//@ ret r
//@ ensures r.name == name
//@end
}
//@item src/topics/errors.rs enum AttachSubscriptionError drop-derive=thiserror::Error strip-attr=error
//@item src/topics/errors.rs enum RemoveSubscriptionError drop-derive=thiserror::Error strip-attr=error
//@item src/topics/errors.rs enum DeleteError drop-derive=thiserror::Error strip-attr=error
//@item src/topics/errors.rs enum CreateTopicError drop-derive=thiserror::Error strip-attr=error
//@item src/topics/topic_actor.rs struct TopicActor

/// abstract state of a topic actor
pub struct TopicView {
    pub subs: Map<SubscriptionName, Arc<Subscription>>,
    pub tid: u32,
    pub next: u32,
    pub deleted: bool,
}
/// C08: ids[i] is the id with counter next + 1 + i of topic tid, for the first n messages
pub open spec fn ids_ok(ids: Seq<MessageId>, tid: u32, next: int, n: int) -> bool {
    &&& ids.len() == n
    &&& forall|i: int| 0 <= i < n ==> (#[trigger] ids[i]).value == mid(tid, (next + 1 + i) as u32)
}
/// C09: batch[i] is submitted message i with id ids[i] and the one publish time
pub open spec fn batch_ok(batch: Seq<Arc<TopicMessage>>, ids: Seq<MessageId>, msgs: Seq<TopicMessage>, time: SystemTime, n: int) -> bool {
    &&& batch.len() == n
    &&& n <= msgs.len() && n <= ids.len()
    &&& forall|i: int| 0 <= i < n ==> (#[trigger] batch[i]).id == ids[i] && batch[i].data == msgs[i].data
            && batch[i].attributes == msgs[i].attributes && batch[i].published_at == time
}
impl TopicActor {
    pub closed spec fn view(&self) -> TopicView {
        TopicView { subs: self.subscriptions@, tid: self.topic_internal_id, next: self.next_message_id, deleted: self.deleted }
    }

//@fn src/topics/topic_actor.rs TopicActor::attach_subscription tags=C11
//@ ret r
//@ # C10: attach never fails - SubscriptionManager::create_subscription registers the name BEFORE it awaits the attach and
//@ # has no rollback, so "a failed create leaves nothing behind" holds only because this is infallible (also on a topic
//@ # that was deleted between the handler's lookup and the attach)
//@ ensures[C10] r.is_ok()
//@ # insert-if-absent: an attached name is never overwritten
//@ ensures[C11] old(self)@.subs.dom().contains(subscription.name) ==> final(self)@.subs =~= old(self)@.subs
//@ # C01: on a live topic a new name joins the fan-out set
//@ ensures[C01] !old(self)@.deleted && !old(self)@.subs.dom().contains(subscription.name) ==> final(self)@.subs =~= old(self)@.subs.insert(subscription.name, subscription)
//@ ensures[C11] final(self)@.tid == old(self)@.tid && final(self)@.next == old(self)@.next && final(self)@.deleted == old(self)@.deleted
//@end

//@fn src/topics/topic_actor.rs TopicActor::remove_subscription tags=C11
//@ ret r
//@ ensures r.is_ok()
//@ # exactly the named subscription leaves the topic's set
//@ ensures[C11] final(self)@ == (TopicView { subs: old(self)@.subs.remove(name), ..old(self)@ })
//@end

//@fn src/topics/topic_actor.rs TopicActor::delete tags=C11
//@ ret r
//@ ensures r.is_ok()
//@ ensures[C11] old(self)@.deleted ==> final(self)@ == old(self)@
//@ # topic delete clears its subscription set (the subscriptions themselves are not touched) and is idempotent
//@ ensures[C11] !old(self)@.deleted ==> final(self)@ == (TopicView { subs: Map::empty(), deleted: true, ..old(self)@ })
//@end

//@fn src/topics/topic_actor.rs TopicActor::publish_messages tags=C08 name=TopicActor::publish_ids n3=1 tail=(message_ids,~messages)
//@ region /let mut message_ids = Vec::with_capacity\(messages\.len\(\)\);/ /^\s*n3_acc \};\s*$/ as fn publish_ids(&mut self, messages: Vec<TopicMessage>, publish_time: SystemTime) -> (r: (Vec<MessageId>, Vec<Arc<TopicMessage>>))
//@ # A-ARITH: fewer than 2^32 - 1 messages per topic
//@ requires old(self)@.next + messages@.len() <= u32::MAX
//@ # C08: exactly one id per submitted message, in request order, counter strictly increasing
//@ ensures[C08] r.0@.len() == messages@.len() && r.1@.len() == messages@.len()
//@ ensures[C08] ids_ok(r.0@, old(self)@.tid, old(self)@.next as int, messages@.len() as int)
//@ # C09: message i of the batch carries exactly the submitted payload and attributes, the id returned for it, one publish time
//@ ensures[C09] batch_ok(r.1@, r.0@, messages@, publish_time, messages@.len() as int)
//@ ensures[C08] final(self)@ == (TopicView { next: (old(self)@.next + messages@.len()) as u32, ..old(self)@ })
//@ loop 1 iter it
//@ loop 1 invariant it.seq() == messages@
//@ loop 1 invariant old(self)@.next + messages@.len() <= u32::MAX
//@ loop 1 invariant self@ == (TopicView { next: (old(self)@.next + it.index()) as u32, ..old(self)@ })
//@ loop 1 invariant ids_ok(message_ids@, old(self)@.tid, old(self)@.next as int, it.index())
//@ loop 1 invariant batch_ok(n3_acc@, message_ids@, messages@, publish_time, it.index())
//@end
}

// ======================================================================================
// src/paging/mod.rs (proved against the same contracts in bundle B2; repeated here so that the list regions are checked against them)
//@item src/paging/mod.rs struct Paging

/// C13: effective page size: the requested size, 20 if it is zero, at most 1000
pub open spec fn norm_size(size: int) -> int {
    if size == 0 { 20 } else if size > 1000 { 1000 } else { size }
}

impl Paging {
    pub closed spec fn sz(&self) -> int { self.size as int }
    pub closed spec fn off(&self) -> Option<usize> { self.offset }

//@fn src/paging/mod.rs Paging::new tags=C13
//@ ret r
//@ ensures[C13] r.sz() == norm_size(size as int), r.off() == offset
//@end

//@fn src/paging/mod.rs Paging::size tags=C13
//@ ret r
//@ ensures[C13] r == (if self.sz() < 10_000 { self.sz() } else { 10_000 })
//@end

//@fn src/paging/mod.rs Paging::offset tags=C13
//@ ret r
//@ ensures r == self.off()
//@end

//@fn src/paging/mod.rs Paging::to_skip tags=C13
//@ ret r
//@ ensures[C13] r == (match self.off() { Some(o) => o, None => 0usize })
//@end

//@fn src/paging/mod.rs Paging::next_page tags=C13
//@ ret r
//@ ensures[C13] r.sz() == self.sz(), r.off() == new_offset
//@end

//@fn src/paging/mod.rs Paging::next_page_from_slice_result tags=C13
//@ ret r
//@ # no overflow: discharged at the call sites from  len > 0 ==> skip < number of items
//@ requires (match self.off() { Some(o) => o as int, None => 0 }) + result@.len() <= usize::MAX
//@ ensures[C13] r.sz() == self.sz()
//@ # next offset = offset + page length, none when the page is empty
//@ ensures[C13] r.off() == (if result@.len() > 0 { Some(((match self.off() { Some(o) => o as int, None => 0 }) + result@.len()) as usize) } else { None })
//@end
}


pub open spec fn imin(a: int, b: int) -> int { if a < b { a } else { b } }
/// the page a list operation returns for (skip, size) over the filtered + sorted list `l`
/// (this is the contract the three list bodies are verified against in bundle B4)
pub open spec fn page_items<T>(l: Seq<T>, skip: int, size: int) -> Seq<T> {
    l.subrange(imin(skip, l.len() as int), imin(skip + size, l.len() as int))
}
/// the offset handed back with that page (Paging::next_page_from_slice_result)
pub open spec fn page_next<T>(l: Seq<T>, skip: int, size: int) -> Option<int> {
    if page_items(l, skip, size).len() > 0 { Some(skip + page_items(l, skip, size).len()) } else { None }
}

// ======================================================================================
// pagination tails of the list operations (regions; the filter/collect heads use the `cloned` adapter, which vstd
// does not specify, and stay outside the contracts - they are covered by the bounded stand-in `paging`)
pub mod sort_ax {
    use super::*;
    /// TRUSTED (A-STD): `<[T]>::sort_unstable` leaves the slice as `sorted(old)`: a permutation ordered by `Ord`
    /// (for Topic / Subscription handles: by internal id = creation order, src/topics/topic.rs:128-147)
    pub uninterp spec fn sorted<X>(s: Seq<X>) -> Seq<X>;
    pub broadcast axiom fn sorted_len<X>(s: Seq<X>)
        ensures #[trigger] sorted(s).len() == s.len();
}
pub use sort_ax::sorted;
pub assume_specification<X: Ord> [<[X]>::sort_unstable] (s: &mut [X])
    ensures final(s)@ == sorted(old(s)@);
// TRUSTED (A-DERIVE): Topic / Subscription handles are ordered by internal id (hand-written Ord impls in topic.rs / subscription.rs)
impl PartialEq for Topic { #[verifier::external_body] fn eq(&self, o: &Self) -> bool { self.internal_id == o.internal_id } }
impl Eq for Topic {}
impl PartialOrd for Topic { #[verifier::external_body] fn partial_cmp(&self, o: &Self) -> Option<std::cmp::Ordering> { Some(self.cmp(o)) } }
impl Ord for Topic { #[verifier::external_body] fn cmp(&self, o: &Self) -> std::cmp::Ordering { self.internal_id.cmp(&o.internal_id) } }
impl PartialEq for Subscription { #[verifier::external_body] fn eq(&self, o: &Self) -> bool { self.internal_id == o.internal_id } }
impl Eq for Subscription {}
impl PartialOrd for Subscription { #[verifier::external_body] fn partial_cmp(&self, o: &Self) -> Option<std::cmp::Ordering> { Some(self.cmp(o)) } }
impl Ord for Subscription { #[verifier::external_body] fn cmp(&self, o: &Self) -> std::cmp::Ordering { self.internal_id.cmp(&o.internal_id) } }

//@item src/topics/paging.rs struct TopicsPage
impl TopicsPage {
//@fn src/topics/paging.rs TopicsPage::new tags=C13
//@ ret r
//@ ensures r.topics == topics, r.offset == offset
//@end
}
//@item src/subscriptions/paging.rs struct SubscriptionsPage
impl SubscriptionsPage {
//@fn src/subscriptions/paging.rs SubscriptionsPage::new tags=C13
//@ ret r
//@ ensures r.subscriptions == subscriptions, r.offset == offset
//@end
}
//@item src/topics/errors.rs enum ListTopicsError drop-derive=thiserror::Error strip-attr=error
//@item src/topics/errors.rs enum ListSubscriptionsError drop-derive=thiserror::Error strip-attr=error

/// C13: the page and next offset a list operation returns for `paging` over the sorted list l
pub open spec fn page_ok<T>(l: Seq<T>, paging: Paging, items: Seq<T>, offset: Option<usize>) -> bool {
    let skip = match paging.off() { Some(o) => o as int, None => 0 };
    let size = if paging.sz() < 10_000 { paging.sz() } else { 10_000 };
    &&& items == page_items(l, skip, size)
    &&& (match offset { Some(o) => page_next(l, skip, size) == Some(o as int), None => page_next(l, skip, size).is_none() })
}

//@fn src/topics/topic_manager.rs TopicManager::list_topics tags=C13 name=list_topics_tail
//@ region /topics_for_project\.sort_unstable\(\);/ /^\s*Ok\(page\)\s*$/ as fn list_topics_tail(paging: Paging, skip_value: usize, mut topics_for_project: Vec<Arc<Topic>>) -> (r: Result<TopicsPage, ListTopicsError>)
//@ requires skip_value == (match paging.off() { Some(o) => o, None => 0usize })
//@ # a Vec never holds more than usize::MAX elements
//@ requires topics_for_project@.len() <= usize::MAX
//@ # C13: the page is the window [offset, offset + size) of the project's topics in creation order; next offset = offset + page length
//@ ensures[C13] r.is_ok() && page_ok(sorted(topics_for_project@), paging, r.unwrap().topics@, r.unwrap().offset)
//@ ghost-after /topics_for_project\.sort_unstable\(\);/ let ghost l = topics_for_project@;
//@ proof-before[C13] /let next_page = paging\.next_page_from_slice_result/ { let size = if paging.sz() < 10_000 { paging.sz() } else { 10_000 }; assert(topics_for_project@ =~= page_items(l, skip_value as int, size)); }
//@end

//@fn src/subscriptions/subscription_manager.rs SubscriptionManager::list_subscriptions_in_project tags=C13 name=list_subscriptions_tail
//@ region /subscriptions_for_project\.sort_unstable\(\);/ /^\s*Ok\(page\)\s*$/ as fn list_subscriptions_tail(paging: Paging, mut subscriptions_for_project: Vec<Arc<Subscription>>) -> (r: Result<SubscriptionsPage, ListSubscriptionsError>)
//@ requires subscriptions_for_project@.len() <= usize::MAX
//@ ensures[C13] r.is_ok() && page_ok(sorted(subscriptions_for_project@), paging, r.unwrap().subscriptions@, r.unwrap().offset)
//@ ghost-after /subscriptions_for_project\.sort_unstable\(\);/ let ghost l = subscriptions_for_project@;
//@ proof-before[C13] /let next_page = paging\.next_page_from_slice_result/ { let size = if paging.sz() < 10_000 { paging.sz() } else { 10_000 }; let skip = match paging.off() { Some(o) => o as int, None => 0 }; assert(subscriptions_for_project@ =~= page_items(l, skip, size)); }
//@end

//@fn src/topics/topic_actor.rs TopicActor::list_subscriptions tags=C13 name=topic_list_tail
//@ region /let next_page = paging\.next_page_from_slice_result\(&subscriptions\);/ /^\s*Ok\(page\)\s*$/ as fn topic_list_tail(paging: Paging, subscriptions: Vec<Arc<Subscription>>) -> (r: Result<SubscriptionsPage, ListSubscriptionsError>)
//@ requires (match paging.off() { Some(o) => o as int, None => 0 }) + subscriptions@.len() <= usize::MAX
//@ # C13: next offset = offset + page length, none when the page is empty (the skip/take window of this list body uses
//@ # the `cloned` adapter and is covered by the bounded stand-in only)
//@ ensures[C13] r.is_ok() && r.unwrap().subscriptions@ == subscriptions@
//@ ensures[C13] r.is_ok() && r.unwrap().offset == (if subscriptions@.len() > 0 { Some(((match paging.off() { Some(o) => o as int, None => 0 }) + subscriptions@.len()) as usize) } else { None })
//@end

// ======================================================================================
// src/topics/topic_manager.rs  (State: the data behind the RwLock)
pub mod tm {
    use super::*;
    broadcast use {vstd::std_specs::hash::group_hash_axioms, name_ax::axiom_topic_name_key, name_ax::axiom_subscription_name_key};
//@item src/topics/topic_manager.rs struct State
    pub struct TmView { pub topics: Map<TopicName, Arc<Topic>>, pub next_id: u32 }
    impl State {
        pub closed spec fn view(&self) -> TmView { TmView { topics: self.topics@, next_id: self.next_id } }

//@fn src/topics/topic_manager.rs State::new tags=C10
//@ ret r
//@ ensures[C10] r@ == (TmView { topics: Map::empty(), next_id: 1 })
//@end

//@fn src/topics/topic_manager.rs State::create_topic tags=C10
//@ ret r
//@ # A-ARITH: fewer than 2^32 - 1 topics per process
//@ requires old(self)@.next_id < u32::MAX
//@ # C10: create succeeds exactly when the name is absent ...
//@ ensures[C10] r.is_ok() <==> !old(self)@.topics.dom().contains(name)
//@ # ... a failed create changes nothing
//@ ensures[C10] r.is_err() ==> final(self)@ == old(self)@
//@ # ... a successful create inserts exactly this name with a fresh internal id (C09: never reused, delete does not touch next_id)
//@ ensures[C10] r.is_ok() ==> r.unwrap().name == name && final(self)@.topics == old(self)@.topics.insert(name, r.unwrap())
//@ # C09: the internal id is fresh: one above every id handed out before, and the counter only grows
//@ ensures[C09] r.is_ok() ==> r.unwrap().internal_id == old(self)@.next_id + 1 && final(self)@.next_id == old(self)@.next_id + 1
//@ proof-before /^\s*Err\(CreateTopicError::AlreadyExists\)\s*$/ { assert(self@.topics =~= old(self)@.topics); }
//@end
    }
    // TopicManagerDelegate::delete: the statement executed under the write lock
//@fn src/topics/topic_manager.rs TopicManagerDelegate::delete tags=C11 name=tm_delete_region
//@ region /state\.topics\.remove\(topic_name\);/ /state\.topics\.remove\(topic_name\);/ as fn tm_delete_region(state: &mut State, topic_name: &TopicName)
//@ # C09: deleting a topic never resets the id counter, so a re-created topic gets a fresh internal id
//@ ensures[C11] final(state)@.topics == old(state)@.topics.remove(*topic_name)
//@ ensures[C09] final(state)@.next_id == old(state)@.next_id
//@end
}

// ======================================================================================
// src/subscriptions/subscription_manager.rs  (State: the data behind the RwLock)
pub mod sm {
    use super::*;
    broadcast use {vstd::std_specs::hash::group_hash_axioms, name_ax::axiom_topic_name_key, name_ax::axiom_subscription_name_key};
//@item src/subscriptions/errors.rs enum CreateSubscriptionError drop-derive=thiserror::Error strip-attr=error
//@item src/subscriptions/subscription_manager.rs struct State
    pub struct SmView { pub subscriptions: Map<SubscriptionName, Arc<Subscription>>, pub next_id: u32 }
    impl State {
        pub closed spec fn view(&self) -> SmView { SmView { subscriptions: self.subscriptions@, next_id: self.next_id } }

//@fn src/subscriptions/subscription_manager.rs State::new tags=C10
//@ ret r
//@ ensures[C10] r@ == (SmView { subscriptions: Map::empty(), next_id: 1 })
//@end

//@fn src/subscriptions/subscription_manager.rs State::create_subscription tags=C10
//@ ret r
//@ requires old(self)@.next_id < u32::MAX
//@ ensures[C10] r.is_ok() <==> !old(self)@.subscriptions.dom().contains(info.name)
//@ ensures[C10] r.is_err() ==> final(self)@ == old(self)@
//@ ensures[C10] r.is_ok() ==> r.unwrap().name == info.name && final(self)@.subscriptions == old(self)@.subscriptions.insert(info.name, r.unwrap())
//@ # C13: listing order = creation order: internal ids grow with every create
//@ ensures[C13] r.is_ok() ==> r.unwrap().internal_id == old(self)@.next_id + 1 && final(self)@.next_id == old(self)@.next_id + 1
//@ proof-before /^\s*Err\(CreateSubscriptionError::AlreadyExists\)\s*$/ { assert(self@.subscriptions =~= old(self)@.subscriptions); }
//@end
    }
    // non-await prefix of SubscriptionManager::create_subscription: the same-project rule is checked before any state access
//@fn src/subscriptions/subscription_manager.rs SubscriptionManager::create_subscription tags=C10 name=same_project_region tail=Ok(())
//@ region /if !topic\.name\.is_in_project\(info\.name\.project_id\(\)\) \{/ /if !topic\.name\.is_in_project\(info\.name\.project_id\(\)\) \{/ as pub fn same_project_region(info: &SubscriptionInfo, topic: &Arc<Topic>) -> (r: Result<(), CreateSubscriptionError>)
//@ ensures[C10] r.is_ok() <==> topic.name.proj() == info.name.proj()
//@ ensures[C10] r.is_err() ==> r == Err::<(), CreateSubscriptionError>(CreateSubscriptionError::MustBeInSameProjectAsTopic)
//@end
    // SubscriptionManagerDelegate::delete / TopicManagerDelegate::delete: the statement executed under the write lock
//@fn src/subscriptions/subscription_manager.rs SubscriptionManagerDelegate::delete tags=C11 name=sm_delete_region
//@ region /let _ = state\.subscriptions\.remove\(name\);/ /let _ = state\.subscriptions\.remove\(name\);/ as fn sm_delete_region(state: &mut State, name: &SubscriptionName)
//@ ensures[C11] final(state)@.subscriptions == old(state)@.subscriptions.remove(*name)
//@ ensures[C13] final(state)@.next_id == old(state)@.next_id
//@end
}
// ======================================================================================
// src/topics/topic.rs: the handle in front of the topic actor's mailbox (async fns, whole bodies)
pub mod topic_handle {
    use super::*;
//@include prelude/mailbox.rs
//@item src/topics/errors.rs enum PublishMessagesError drop-derive=thiserror::Error strip-attr=error
//@item src/topics/topic_actor.rs struct PublishMessagesResponse
//@item src/topics/topic_actor.rs enum TopicRequest
    // the actor's dispatch: each request variant is handed to its handler (contracts above) and changes nothing else
    impl TopicActor {
        // ASSUMED contracts (bodies out of the verifier's reach: `async move` + JoinSet fan-out; `cloned` adapter):
        // publishing and listing do not touch the subscription set, the deleted flag or the topic id
        #[verifier::external_body]
        async fn publish_messages(&mut self, messages: Vec<TopicMessage>) -> (r: Result<PublishMessagesResponse, PublishMessagesError>)
            ensures final(self)@.subs == old(self)@.subs, final(self)@.deleted == old(self)@.deleted, final(self)@.tid == old(self)@.tid
        { unimplemented!() }
        #[verifier::external_body]
        fn list_subscriptions(&self, paging: Paging) -> (r: Result<SubscriptionsPage, ListSubscriptionsError>)
        { unimplemented!() }
//@fn src/topics/topic_actor.rs TopicActor::receive tags=C11 vmodule=root
//@ # C11 / C01: one actor turn per request; only Attach / Remove / Delete change the subscription set, each exactly as
//@ # its handler's contract says
//@ ensures[C11] (match request { TopicRequest::RemoveSubscription { name, responder } => final(self)@ == (TopicView { subs: old(self)@.subs.remove(name), ..old(self)@ }), TopicRequest::Delete { responder } => (old(self)@.deleted ==> final(self)@ == old(self)@) && (!old(self)@.deleted ==> final(self)@ == (TopicView { subs: Map::empty(), deleted: true, ..old(self)@ })), TopicRequest::ListSubscriptions { paging, responder } => final(self)@ == old(self)@, TopicRequest::PublishMessages { messages, responder } => final(self)@.subs == old(self)@.subs && final(self)@.deleted == old(self)@.deleted, TopicRequest::AttachSubscription { subscription, responder } => final(self)@.deleted == old(self)@.deleted && final(self)@.next == old(self)@.next })
//@ ensures[C01] (match request { TopicRequest::AttachSubscription { subscription, responder } => (old(self)@.subs.dom().contains(subscription.name) ==> final(self)@.subs =~= old(self)@.subs) && (!old(self)@.deleted && !old(self)@.subs.dom().contains(subscription.name) ==> final(self)@.subs =~= old(self)@.subs.insert(subscription.name, subscription)), _ => true })
//@end
    }
    /// TRUSTED (A-STUB): the mailbox field of `Topic` (its other fields are not read by the methods below)
    pub struct Topic { pub sender: mpsc::Sender<TopicRequest> }
    impl Topic {
//@fn src/topics/topic.rs Topic::publish_messages tags=C08
//@ ret r
//@ # OK means: exactly one PublishMessages request with the caller's messages, in their order, was put into the mailbox
//@ ensures[C08] r.is_ok() ==> exists|responder: oneshot::Sender<Result<PublishMessagesResponse, PublishMessagesError>>| #[trigger] mpsc::sent(self.sender, TopicRequest::PublishMessages { messages, responder })
//@end
//@fn src/topics/topic.rs Topic::attach_subscription tags=C10
//@ ret r
//@ ensures[C10] r.is_ok() ==> exists|responder: oneshot::Sender<Result<(), AttachSubscriptionError>>| #[trigger] mpsc::sent(self.sender, TopicRequest::AttachSubscription { subscription, responder })
//@end
//@fn src/topics/topic.rs Topic::remove_subscription tags=C11
//@ ret r
//@ ensures[C11] r.is_ok() ==> exists|responder: oneshot::Sender<Result<(), RemoveSubscriptionError>>| #[trigger] mpsc::sent(self.sender, TopicRequest::RemoveSubscription { name, responder })
//@end
//@fn src/topics/topic.rs Topic::list_subscriptions tags=C13
//@ ret r
//@ ensures[C13] r.is_ok() ==> exists|responder: oneshot::Sender<Result<SubscriptionsPage, ListSubscriptionsError>>| #[trigger] mpsc::sent(self.sender, TopicRequest::ListSubscriptions { paging, responder })
//@end
//@fn src/topics/topic.rs Topic::delete tags=C11
//@ ret r
//@ ensures[C11] r.is_ok() ==> exists|responder: oneshot::Sender<Result<(), DeleteError>>| #[trigger] mpsc::sent(self.sender, TopicRequest::Delete { responder })
//@end
    }
}

} // verus!
// A-STUB: awaiting the receiving half of a oneshot channel (outside the verified text: Verus has no model of `poll`)
impl<T> core::future::Future for topic_handle::oneshot::Receiver<T> {
    type Output = Result<T, topic_handle::oneshot::RecvError>;
    fn poll(self: core::pin::Pin<&mut Self>, _cx: &mut core::task::Context<'_>) -> core::task::Poll<Self::Output> { unimplemented!() }
}
fn main() {}
