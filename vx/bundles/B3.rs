//@bundle title resource names: TopicName / SubscriptionName parsing over the byte view of &str
#![feature(slice_index_methods)]
#![allow(unused_imports, dead_code, unused_variables, unused_mut)]
use vstd::prelude::*;
use vstd::string::*;

verus! {

broadcast use {str_ax::pat_char_ascii, str_ax::pat_slash, str_ax::pat_str, str_ax::len_bound};

//@include prelude/str_specs.rs

pub mod lits {
    use super::*;
    // the fixed literal segments as byte strings; tied to the real constants by `lit_bytes` in each module
    pub uninterp spec fn pfx() -> Seq<u8>;          // "projects/"
    pub uninterp spec fn mid_topics() -> Seq<u8>;   // "/topics/"
    pub uninterp spec fn mid_subs() -> Seq<u8>;     // "/subscriptions/"
    // TRUSTED (A-STR): lengths of the literals and the '/' (byte 47) at their ends - all the proofs need of them
    pub axiom fn lits_shape()
        ensures pfx().len() == 9, pfx()[8] == 47u8,
            mid_topics().len() == 8, mid_topics()[0] == 47u8, mid_topics()[7] == 47u8,
            mid_subs().len() == 15, mid_subs()[0] == 47u8, mid_subs()[14] == 47u8;
}
pub use lits::{pfx, mid_topics, mid_subs};

pub mod topic {
    use super::*;
    broadcast use {str_ax::pat_char_ascii, str_ax::pat_slash, str_ax::pat_str, str_ax::len_bound};
//@item src/topics/topic_name.rs const PROJECT_PREFIX
//@item src/topics/topic_name.rs const TOPIC_PREFIX
pub mod lit_ax {
    use super::*;
    // TRUSTED (A-STR): byte values of the two literal constants
    pub(super) axiom fn lit_bytes()
        ensures PROJECT_PREFIX.spec_bytes() == pfx(), TOPIC_PREFIX.spec_bytes() == mid_topics();
}
//@item src/topics/topic_name.rs const PROJECT_PREFIX_LEN ensures=9 proof=lit_ax::lit_bytes();lits::lits_shape()
//@item src/topics/topic_name.rs const TOPIC_PREFIX_LEN ensures=8 proof=lit_ax::lit_bytes();lits::lits_shape()
//@item src/topics/topic_name.rs struct TopicName drop-derive=Debug,Clone,PartialEq,Eq,Hash

impl TopicName {
    pub closed spec fn p(&self) -> Seq<u8> { bx(self.project_id) }
    pub closed spec fn t(&self) -> Seq<u8> { bx(self.topic_id) }

//@fn src/topics/topic_name.rs TopicName::try_parse tags=C17
//@ ret r
//@ ensures[C18] r.is_some() ==> accepted_as(unparsed.spec_bytes(), mid_topics(), r.unwrap().p(), r.unwrap().t())
//@ # completeness: every string of the grammar is accepted (in particular the canonical echo of an accepted name)
//@ ensures[C18] grammar_ok(unparsed.spec_bytes(), mid_topics()) ==> r.is_some()
//@ proof-start[C18] { lits::lits_shape(); if grammar_ok(unparsed.spec_bytes(), mid_topics()) { lemma_grammar_facts(unparsed.spec_bytes(), mid_topics()); } }
//@ proof-before[C18] /let project_id = unparsed\.get\(PROJECT_PREFIX_LEN\.\.\)\?;/ { if grammar_ok(unparsed.spec_bytes(), mid_topics()) { str_ax::ascii_boundaries(unparsed, 8); str_ax::end_boundaries(unparsed); } }
//@ proof-before[C18] /let project_id = project_id\.get\(\.\.project_id\.find\(/ { if grammar_ok(unparsed.spec_bytes(), mid_topics()) { let n = proj_len(unparsed.spec_bytes()); assert(project_id.spec_bytes()[n] == 47u8); assert forall|j: int| 0 <= j < n implies project_id.spec_bytes()[j] != 47u8 by { assert(project_id.spec_bytes()[j] == unparsed.spec_bytes()[9 + j]); } str_ax::ascii_boundaries(project_id, n); str_ax::end_boundaries(project_id); } }
//@ proof-before[C18] /let start = PROJECT_PREFIX_LEN \+ project_id\.len\(\);/ { if grammar_ok(unparsed.spec_bytes(), mid_topics()) { let n = proj_len(unparsed.spec_bytes()); assert(project_id.spec_bytes().len() == n); str_ax::ascii_boundaries(unparsed, 9 + n); str_ax::ascii_boundaries(unparsed, 9 + n + mid_topics().len() - 1); str_ax::end_boundaries(unparsed); } }
//@ proof-start { lit_ax::lit_bytes(); lits::lits_shape(); }
//@ proof-before[C18] /^\s*Some\(TopicName \{\s*$/ { let s = unparsed.spec_bytes(); let n = project_id.spec_bytes().len() as int; assert(s.subrange(9, s.len() as int).subrange(0, n) =~= s.subrange(9, 9 + n)); lemma_accept(s, mid_topics(), project_id.spec_bytes(), topic_id.spec_bytes()); }
//@ closure 1 ret tr: &str
//@ closure 1 ensures tr.spec_bytes() == trimmed($1.spec_bytes(), 47u8)
//@end
}
}

pub mod subscription {
    use super::*;
    broadcast use {str_ax::pat_char_ascii, str_ax::pat_slash, str_ax::pat_str, str_ax::len_bound};
//@item src/subscriptions/subscription_name.rs const PROJECT_PREFIX
//@item src/subscriptions/subscription_name.rs const SUBSCRIPTION_PREFIX
pub mod lit_ax {
    use super::*;
    // TRUSTED (A-STR): byte values of the two literal constants
    pub(super) axiom fn lit_bytes()
        ensures PROJECT_PREFIX.spec_bytes() == pfx(), SUBSCRIPTION_PREFIX.spec_bytes() == mid_subs();
}
//@item src/subscriptions/subscription_name.rs const PROJECT_PREFIX_LEN ensures=9 proof=lit_ax::lit_bytes();lits::lits_shape()
//@item src/subscriptions/subscription_name.rs const SUBSCRIPTION_PREFIX_LEN ensures=15 proof=lit_ax::lit_bytes();lits::lits_shape()
//@item src/subscriptions/subscription_name.rs struct SubscriptionName drop-derive=Debug,Clone,PartialEq,Eq,Hash

impl SubscriptionName {
    pub closed spec fn p(&self) -> Seq<u8> { bx(self.project_id) }
    pub closed spec fn t(&self) -> Seq<u8> { bx(self.subscription_id) }

//@fn src/subscriptions/subscription_name.rs SubscriptionName::try_parse tags=C17
//@ ret r
//@ ensures[C18] r.is_some() ==> accepted_as(unparsed.spec_bytes(), mid_subs(), r.unwrap().p(), r.unwrap().t())
//@ # completeness: every string of the grammar is accepted (in particular the canonical echo of an accepted name)
//@ ensures[C18] grammar_ok(unparsed.spec_bytes(), mid_subs()) ==> r.is_some()
//@ proof-start[C18] { lits::lits_shape(); if grammar_ok(unparsed.spec_bytes(), mid_subs()) { lemma_grammar_facts(unparsed.spec_bytes(), mid_subs()); } }
//@ proof-before[C18] /let project_id = unparsed\.get\(PROJECT_PREFIX_LEN\.\.\)\?;/ { if grammar_ok(unparsed.spec_bytes(), mid_subs()) { str_ax::ascii_boundaries(unparsed, 8); str_ax::end_boundaries(unparsed); } }
//@ proof-before[C18] /let project_id = project_id\.get\(\.\.project_id\.find\(/ { if grammar_ok(unparsed.spec_bytes(), mid_subs()) { let n = proj_len(unparsed.spec_bytes()); assert(project_id.spec_bytes()[n] == 47u8); assert forall|j: int| 0 <= j < n implies project_id.spec_bytes()[j] != 47u8 by { assert(project_id.spec_bytes()[j] == unparsed.spec_bytes()[9 + j]); } str_ax::ascii_boundaries(project_id, n); str_ax::end_boundaries(project_id); } }
//@ proof-before[C18] /let start = PROJECT_PREFIX_LEN \+ project_id\.len\(\);/ { if grammar_ok(unparsed.spec_bytes(), mid_subs()) { let n = proj_len(unparsed.spec_bytes()); assert(project_id.spec_bytes().len() == n); str_ax::ascii_boundaries(unparsed, 9 + n); str_ax::ascii_boundaries(unparsed, 9 + n + mid_subs().len() - 1); str_ax::end_boundaries(unparsed); } }
//@ proof-start { lit_ax::lit_bytes(); lits::lits_shape(); }
//@ proof-before[C18] /^\s*Some\(SubscriptionName \{\s*$/ { let s = unparsed.spec_bytes(); let n = project_id.spec_bytes().len() as int; assert(s.subrange(9, s.len() as int).subrange(0, n) =~= s.subrange(9, 9 + n)); lemma_accept(s, mid_subs(), project_id.spec_bytes(), subscription_id.spec_bytes()); }
//@ closure 1 ret tr: &str
//@ closure 1 ensures tr.spec_bytes() == trimmed($1.spec_bytes(), 47u8)
//@end
}
}


pub mod project {
    use super::*;
    broadcast use {str_ax::pat_char_ascii, str_ax::pat_slash, str_ax::pat_str, str_ax::len_bound};
//@include prelude/status.rs
//@include prelude/string_conv.rs
//@hoisted src/api/parser.rs parse_project_id::parse ensures.PROJECT_PREFIX_LEN=9 proof.PROJECT_PREFIX_LEN=lit_ax::lit_bytes();lits::lits_shape()
pub mod lit_ax {
    use super::*;
    // TRUSTED (A-STR): byte value of the literal constant
    pub(super) axiom fn lit_bytes()
        ensures PROJECT_PREFIX.spec_bytes() == pfx();
}
/// C17: `projects/{id}`: accepted exactly when the string starts with "projects/"; the id is the remaining text
//@fn src/api/parser.rs parse_project_id::parse tags=C17 name=parse
//@ ret r
//@ ensures[C17] r.is_some() <==> is_prefix(pfx(), raw_value.spec_bytes())
//@ # the id is the text after the prefix (stated over its UTF-8 bytes)
//@ ensures[C17] r.is_some() ==> vstd::utf8::encode_utf8(r.unwrap()@) == raw_value.spec_bytes().subrange(9, raw_value.spec_bytes().len() as int)
//@ proof-start { lit_ax::lit_bytes(); lits::lits_shape(); if is_prefix(pfx(), raw_value.spec_bytes()) { str_ax::ascii_boundaries(raw_value, 8); str_ax::end_boundaries(raw_value); } }
//@end
//@fn src/api/parser.rs parse_project_id tags=C17 hoist-fns=1 canary=start
//@ ret r
//@ # C17: `projects/{id}` is accepted exactly when it starts with "projects/", anything else is INVALID_ARGUMENT
//@ ensures[C17] r.is_ok() <==> is_prefix(pfx(), raw_value.spec_bytes())
//@ ensures[C17] r.is_err() ==> err_code(r) == Some(Code::InvalidArgument)
//@ ensures[C17] r.is_ok() ==> vstd::utf8::encode_utf8(r.unwrap()@) == raw_value.spec_bytes().subrange(9, raw_value.spec_bytes().len() as int)
//@ closure 1 ret e: Status
//@ closure 1 ensures e.code == Code::InvalidArgument
//@end
}

#[verifier::opaque]
/// C18 grammar: s = "projects/" p mid rest, '/' not in p, p and the (slash-trimmed) id non-empty
pub open spec fn accepted_as(s: Seq<u8>, mid: Seq<u8>, p: Seq<u8>, t: Seq<u8>) -> bool {
    exists|rest: Seq<u8>| s == pfx() + p + mid + rest && #[trigger] trimmed(rest, 47u8) == t
        && p.len() > 0 && !p.contains(47u8) && t.len() > 0
}

/// C18 grammar as a predicate on the input alone: some decomposition exists
#[verifier::opaque]
pub open spec fn grammar_ok(s: Seq<u8>, mid: Seq<u8>) -> bool {
    exists|p: Seq<u8>, rest: Seq<u8>| #[trigger] (pfx() + p + mid + rest) == s && p.len() > 0 && !p.contains(47u8) && trimmed(rest, 47u8).len() > 0
}
/// length of the project segment of a string of the grammar: offset of the first '/' after "projects/"
pub open spec fn is_first_slash(s: Seq<u8>, k: int) -> bool {
    9 <= k < s.len() && s[k] == 47u8 && (forall|j: int| 9 <= j < k ==> s[j] != 47u8)
}
pub open spec fn proj_len(s: Seq<u8>) -> int {
    (choose|k: int| is_first_slash(s, k)) - 9
}
/// the decomposition is determined by the first '/' after the prefix (mid starts with '/')
pub proof fn lemma_grammar_facts(s: Seq<u8>, mid: Seq<u8>)
    requires grammar_ok(s, mid), mid.len() > 0, mid[0] == 47u8, pfx().len() == 9
    ensures
        proj_len(s) >= 1,
        9 + proj_len(s) + mid.len() <= s.len(),
        is_prefix(pfx(), s),
        s[9 + proj_len(s)] == 47u8,
        forall|j: int| 9 <= j < 9 + proj_len(s) ==> s[j] != 47u8,
        is_prefix(mid, s.subrange(9 + proj_len(s), s.len() as int)),
        trimmed(s.subrange(9 + proj_len(s) + mid.len(), s.len() as int), 47u8).len() > 0,
{
    reveal(grammar_ok);
    let (p, rest) = choose|p: Seq<u8>, rest: Seq<u8>| #[trigger] (pfx() + p + mid + rest) == s && p.len() > 0 && !p.contains(47u8) && trimmed(rest, 47u8).len() > 0;
    let n = p.len() as int;
    let c = pfx() + p + mid + rest;
    assert(c.len() == 9 + n + mid.len() + rest.len());
    assert(s.subrange(0, 9) =~= pfx());
    assert(s[9 + n] == mid[0]);
    assert forall|j: int| 9 <= j < 9 + n implies s[j] != 47u8 by {
        assert(s[j] == p[j - 9]);
        if p[j - 9] == 47u8 { assert(p.contains(47u8)); }
    }
    // n is a witness of proj_len's choose, and the only one
    assert(is_first_slash(s, 9 + n));
    let m = proj_len(s);
    assert(is_first_slash(s, 9 + m));
    assert(m == n) by {
        if m < n { assert(s[9 + m] != 47u8); }
        if n < m { assert(s[9 + n] != 47u8); }
    }
    assert(s.subrange(9 + n, s.len() as int).subrange(0, mid.len() as int) =~= mid);
    assert(s.subrange(9 + n + mid.len(), s.len() as int) =~= rest);
}
/// witness construction for `accepted_as` from the slicing facts the parser establishes
pub proof fn lemma_accept(s: Seq<u8>, mid: Seq<u8>, p: Seq<u8>, t: Seq<u8>)
    requires
        is_prefix(pfx(), s),
        9 + p.len() <= s.len(),
        p == s.subrange(9, 9 + (p.len() as int)),
        forall|j: int| 0 <= j < (p.len() as int) ==> p[j] != 47u8,
        is_prefix(mid, s.subrange(9 + (p.len() as int), s.len() as int)),
        t == trimmed(s.subrange(9 + (p.len() as int) + (mid.len() as int), s.len() as int), 47u8),
        (p.len() as int) > 0, t.len() > 0,
    ensures accepted_as(s, mid, p, t)
{
    reveal(accepted_as);
    lits::lits_shape();
    let rest = s.subrange(9 + (p.len() as int) + (mid.len() as int), s.len() as int);
    let tail = s.subrange(9 + (p.len() as int), s.len() as int);
    assert(mid == tail.subrange(0, (mid.len() as int)));
    assert(pfx() == s.subrange(0, 9));
    assert(s =~= pfx() + p + mid + rest) by {
        let c = pfx() + p + mid + rest;
        assert(c.len() == s.len());
        assert forall|i: int| 0 <= i < s.len() implies c[i] == s[i] by {
            if i < 9 { assert(s.subrange(0, 9)[i] == s[i]); }
            else if i < 9 + (p.len() as int) { assert(s.subrange(9, 9 + (p.len() as int))[i - 9] == s[i]); }
            else if i < 9 + (p.len() as int) + (mid.len() as int) { assert(tail.subrange(0, (mid.len() as int))[i - 9 - (p.len() as int)] == tail[i - 9 - (p.len() as int)]); }
            else { }
        }
    }
    assert(!p.contains(47u8));
    assert(trimmed(rest, 47u8) == t);
}

} // verus!
fn main() {}
