//@bundle title resource names: TopicName / SubscriptionName parsing over the byte view of &str
#![feature(slice_index_methods)]
#![allow(unused_imports, dead_code, unused_variables, unused_mut)]
use vstd::prelude::*;
use vstd::string::*;

verus! {

broadcast use {str_ax::pat_char_ascii, str_ax::pat_slash, str_ax::pat_str, str_ax::len_bound};

//@include prelude/str_specs.rs

pub mod lits {
    use super::*;
    // TRUSTED (A-STR): byte values of the fixed literal segments
    pub open spec fn pfx() -> Seq<u8> { seq![112u8, 114, 111, 106, 101, 99, 116, 115, 47] }                 // "projects/"
    pub open spec fn mid_topics() -> Seq<u8> { seq![47u8, 116, 111, 112, 105, 99, 115, 47] }               // "/topics/"
    pub open spec fn mid_subs() -> Seq<u8> { seq![47u8, 115, 117, 98, 115, 99, 114, 105, 112, 116, 105, 111, 110, 115, 47] }  // "/subscriptions/"
}
pub use lits::{pfx, mid_topics, mid_subs};

pub mod topic {
    use super::*;
    broadcast use {str_ax::pat_char_ascii, str_ax::pat_slash, str_ax::pat_str, str_ax::len_bound};
//@item src/topics/topic_name.rs const PROJECT_PREFIX
//@item src/topics/topic_name.rs const TOPIC_PREFIX
pub mod lit_ax {
    use super::*;
    // TRUSTED (A-STR): byte values of the two literal constants
    pub(super) axiom fn lit_bytes()
        ensures PROJECT_PREFIX.spec_bytes() == pfx(), TOPIC_PREFIX.spec_bytes() == mid_topics();
}
//@item src/topics/topic_name.rs const PROJECT_PREFIX_LEN ensures=9 proof=lit_ax::lit_bytes()
//@item src/topics/topic_name.rs const TOPIC_PREFIX_LEN ensures=8 proof=lit_ax::lit_bytes()
//@item src/topics/topic_name.rs struct TopicName drop-derive=Debug,Clone,PartialEq,Eq,Hash

impl TopicName {
    pub closed spec fn p(&self) -> Seq<u8> { bx(self.project_id) }
    pub closed spec fn t(&self) -> Seq<u8> { bx(self.topic_id) }

//@fn src/topics/topic_name.rs TopicName::try_parse tags=C17
//@ ret r
//@ ensures[C18] r.is_some() ==> accepted_as(unparsed.spec_bytes(), mid_topics(), r.unwrap().p(), r.unwrap().t())
//@ proof-start { lit_ax::lit_bytes(); }
//@ proof-before[C18] /^\s*Some\(TopicName \{\s*$/ { let s = unparsed.spec_bytes(); let n = project_id.spec_bytes().len() as int; assert(s.subrange(9, s.len() as int).subrange(0, n) =~= s.subrange(9, 9 + n)); lemma_accept(s, mid_topics(), project_id.spec_bytes(), topic_id.spec_bytes()); }
//@ closure 1 ret tr: &str
//@ closure 1 ensures tr.spec_bytes() == trimmed(s.spec_bytes(), 47u8)
//@end
}
}

pub mod subscription {
    use super::*;
    broadcast use {str_ax::pat_char_ascii, str_ax::pat_slash, str_ax::pat_str, str_ax::len_bound};
//@item src/subscriptions/subscription_name.rs const PROJECT_PREFIX
//@item src/subscriptions/subscription_name.rs const SUBSCRIPTION_PREFIX
pub mod lit_ax {
    use super::*;
    // TRUSTED (A-STR): byte values of the two literal constants
    pub(super) axiom fn lit_bytes()
        ensures PROJECT_PREFIX.spec_bytes() == pfx(), SUBSCRIPTION_PREFIX.spec_bytes() == mid_subs();
}
//@item src/subscriptions/subscription_name.rs const PROJECT_PREFIX_LEN ensures=9 proof=lit_ax::lit_bytes()
//@item src/subscriptions/subscription_name.rs const SUBSCRIPTION_PREFIX_LEN ensures=15 proof=lit_ax::lit_bytes()
//@item src/subscriptions/subscription_name.rs struct SubscriptionName drop-derive=Debug,Clone,PartialEq,Eq,Hash

impl SubscriptionName {
    pub closed spec fn p(&self) -> Seq<u8> { bx(self.project_id) }
    pub closed spec fn t(&self) -> Seq<u8> { bx(self.subscription_id) }

//@fn src/subscriptions/subscription_name.rs SubscriptionName::try_parse tags=C17
//@ ret r
//@ ensures[C18] r.is_some() ==> accepted_as(unparsed.spec_bytes(), mid_subs(), r.unwrap().p(), r.unwrap().t())
//@ proof-start { lit_ax::lit_bytes(); }
//@ proof-before[C18] /^\s*Some\(SubscriptionName \{\s*$/ { let s = unparsed.spec_bytes(); let n = project_id.spec_bytes().len() as int; assert(s.subrange(9, s.len() as int).subrange(0, n) =~= s.subrange(9, 9 + n)); lemma_accept(s, mid_subs(), project_id.spec_bytes(), subscription_id.spec_bytes()); }
//@ closure 1 ret tr: &str
//@ closure 1 ensures tr.spec_bytes() == trimmed(s.spec_bytes(), 47u8)
//@end
}
}

/// C18 grammar: s = "projects/" p mid rest, '/' not in p, p and the (slash-trimmed) id non-empty
pub open spec fn accepted_as(s: Seq<u8>, mid: Seq<u8>, p: Seq<u8>, t: Seq<u8>) -> bool {
    exists|rest: Seq<u8>| s == pfx() + p + mid + rest && #[trigger] trimmed(rest, 47u8) == t
        && p.len() > 0 && !p.contains(47u8) && t.len() > 0
}

/// witness construction for `accepted_as` from the slicing facts the parser establishes
pub proof fn lemma_accept(s: Seq<u8>, mid: Seq<u8>, p: Seq<u8>, t: Seq<u8>)
    requires
        is_prefix(pfx(), s),
        9 + p.len() <= s.len(),
        p == s.subrange(9, 9 + (p.len() as int)),
        forall|j: int| 0 <= j < (p.len() as int) ==> p[j] != 47u8,
        is_prefix(mid, s.subrange(9 + (p.len() as int), s.len() as int)),
        t == trimmed(s.subrange(9 + (p.len() as int) + (mid.len() as int), s.len() as int), 47u8),
        (p.len() as int) > 0, t.len() > 0,
    ensures accepted_as(s, mid, p, t)
{
    let rest = s.subrange(9 + (p.len() as int) + (mid.len() as int), s.len() as int);
    let tail = s.subrange(9 + (p.len() as int), s.len() as int);
    assert(mid == tail.subrange(0, (mid.len() as int)));
    assert(pfx() == s.subrange(0, 9));
    assert(s =~= pfx() + p + mid + rest) by {
        let c = pfx() + p + mid + rest;
        assert(c.len() == s.len());
        assert forall|i: int| 0 <= i < s.len() implies c[i] == s[i] by {
            if i < 9 { assert(s.subrange(0, 9)[i] == s[i]); }
            else if i < 9 + (p.len() as int) { assert(s.subrange(9, 9 + (p.len() as int))[i - 9] == s[i]); }
            else if i < 9 + (p.len() as int) + (mid.len() as int) { assert(tail.subrange(0, (mid.len() as int))[i - 9 - (p.len() as int)] == tail[i - 9 - (p.len() as int)]); }
            else { }
        }
    }
    assert(!p.contains(47u8));
    assert(trimmed(rest, 47u8) == t);
}

} // verus!
fn main() {}
