//@bundle title subscription actor core: ack ids, leases, outstanding tracker, backlog, handlers
#![feature(allocator_api)]
#![allow(unused_imports, dead_code, unused_variables, unused_mut)]
use vstd::prelude::*;
use vstd::std_specs::cmp::*;
use vstd::std_specs::hash::*;
use vstd::std_specs::iter::*;
use std::cmp::Ordering;
use std::collections::hash_map::Entry;
use std::collections::{BTreeSet, HashMap, VecDeque};
use std::sync::Arc;
use std::time::Duration;

verus! {

broadcast use {
    vstd::std_specs::hash::group_hash_axioms,
    vstd::std_specs::btree::group_btree_axioms,
    vstd::std_specs::iter::group_iter_axioms,
    ax::axiom_ackid_key_model, ax::axiom_key_cmp, ax::axiom_ackid_cmp,
    ax2::axiom_yielded_vec, ax2::axiom_yielded_iter,
};

//@include prelude/instant.rs
//@include prelude/collections.rs
//@include prelude/stubs.rs

// ======================================================================================
// src/topics/topic_message.rs (types only; the functions are verified in bundle B4)
//@item src/topics/topic_message.rs struct MessageId
//@item src/topics/topic_message.rs struct TopicMessage

// ======================================================================================
// src/subscriptions/ack_id.rs
//@item src/subscriptions/ack_id.rs struct AckId
// TRUSTED (A-DERIVE): the derived comparison traits of AckId behave field-wise (validated by Kani harness derive_ackid)
impl PartialEqSpecImpl for AckId {
    open spec fn obeys_eq_spec() -> bool { true }
    closed spec fn eq_spec(&self, other: &AckId) -> bool { self.value == other.value }
}
impl PartialOrdSpecImpl for AckId {
    open spec fn obeys_partial_cmp_spec() -> bool { true }
    closed spec fn partial_cmp_spec(&self, other: &AckId) -> Option<Ordering> {
        PartialOrdSpec::partial_cmp_spec(&self.value, &other.value)
    }
}
impl OrdSpecImpl for AckId {
    open spec fn obeys_cmp_spec() -> bool { true }
    closed spec fn cmp_spec(&self, other: &AckId) -> Ordering {
        OrdSpec::cmp_spec(&self.value, &other.value)
    }
}
pub type Key = (AckDeadline, AckId);
pub mod ax {
    use super::*;
    // TRUSTED (A-DERIVE): derived Ord/Hash of the key types obey the total-order / hash-key models
    pub broadcast axiom fn axiom_key_cmp()
        ensures #[trigger] vstd::std_specs::btree::key_obeys_cmp_spec::<Key>();
    pub broadcast axiom fn axiom_ackid_cmp()
        ensures #[trigger] vstd::std_specs::btree::key_obeys_cmp_spec::<AckId>();
    pub broadcast axiom fn axiom_ackid_key_model()
        ensures #[trigger] obeys_key_model::<AckId>();
}
impl AckId {
    pub closed spec fn v(&self) -> int { self.value as int }

//@fn src/subscriptions/ack_id.rs AckId::new tags=C03
//@ ret r
//@ ensures r.v() == value
//@end

//@fn src/subscriptions/ack_id.rs AckId::next tags=C03
//@ ret r
//@ requires[C03] self.v() < u64::MAX
//@ ensures[C03] r.v() == self.v() + 1
//@end
}

// ======================================================================================
// src/subscriptions/pulled_message.rs
//@item src/subscriptions/pulled_message.rs struct AckDeadline
// TRUSTED (A-DERIVE)
impl PartialEqSpecImpl for AckDeadline {
    open spec fn obeys_eq_spec() -> bool { true }
    closed spec fn eq_spec(&self, other: &AckDeadline) -> bool { self.time == other.time }
}
impl PartialOrdSpecImpl for AckDeadline {
    open spec fn obeys_partial_cmp_spec() -> bool { true }
    closed spec fn partial_cmp_spec(&self, other: &AckDeadline) -> Option<Ordering> {
        PartialOrdSpec::partial_cmp_spec(&self.time, &other.time)
    }
}
impl OrdSpecImpl for AckDeadline {
    open spec fn obeys_cmp_spec() -> bool { true }
    closed spec fn cmp_spec(&self, other: &AckDeadline) -> Ordering {
        OrdSpec::cmp_spec(&self.time, &other.time)
    }
}
//@item src/subscriptions/pulled_message.rs struct PulledMessage drop-derive=Clone
// TRUSTED (A-DERIVE): the derived Clone of PulledMessage (dropped above, Verus cannot give it a spec) is field-wise
impl Clone for PulledMessage {
    #[verifier::external_body]
    fn clone(&self) -> (r: Self) ensures r == *self { unimplemented!() }
}

//@hoisted src/subscriptions/pulled_message.rs AckDeadline::new

/// the statement's "fixed sub-second slack": a deadline is rounded up by less than one second (the code rounds to a
/// 100 ms grid; the contract does not pin the grid)
pub open spec fn grid_ns() -> int { 1_000_000_000 }

impl AckDeadline {
    /// instant of the deadline, ns
    pub closed spec fn t(&self) -> int { self.time.v() }

//@fn src/subscriptions/pulled_message.rs AckDeadline::new tags=C04
//@ ret r
//@ requires time.v() >= epoch().v()
//@ requires time.v() - epoch().v() < 0x4000_0000_0000_0000
//@ requires epoch().v() + (time.v() - epoch().v()) + grid_ns() <= instant_max()
//@ # the statement's lower bound "not before that instant"
//@ ensures[C04] r.t() >= time.v()
//@ # weaker lower bound kept separately so that an early firing larger than the 1us truncation still fails a passing clause
//@ ensures[C04] r.t() > time.v() - 1000
//@ # upper bound: "no later than a fixed sub-second slack"
//@ ensures[C04] r.t() < time.v() + grid_ns()
//@end

//@fn src/subscriptions/pulled_message.rs AckDeadline::time tags=C04
//@ ret r
//@ ensures r.v() == self.t()
//@end
}

impl PulledMessage {
    pub closed spec fn id(&self) -> AckId { self.ack_id }
    pub closed spec fn dl(&self) -> AckDeadline { self.deadline }
    pub closed spec fn msg(&self) -> Arc<TopicMessage> { self.message }
    pub closed spec fn attempt(&self) -> u16 { self.delivery_attempt }

//@fn src/subscriptions/pulled_message.rs PulledMessage::new tags=C03
//@ ret r
//@ ensures r.msg() == message, r.id() == ack_id, r.dl() == deadline, r.attempt() == delivery_attempt
//@end

//@fn src/subscriptions/pulled_message.rs PulledMessage::message tags=C09
//@ ret r
//@ ensures *r == self.msg()
//@end

//@fn src/subscriptions/pulled_message.rs PulledMessage::into_message tags=C01
//@ ret r
//@ ensures r == self.msg()
//@end

//@fn src/subscriptions/pulled_message.rs PulledMessage::ack_id tags=C03
//@ ret r
//@ ensures r == self.id()
//@end

//@fn src/subscriptions/pulled_message.rs PulledMessage::deadline tags=C04
//@ ret r
//@ ensures *r == self.dl()
//@end

//@fn src/subscriptions/pulled_message.rs PulledMessage::expiration_key tags=C04
//@ ret r
//@ ensures r == (self.dl(), self.id())
//@end

//@fn src/subscriptions/pulled_message.rs PulledMessage::delivery_attempt
//@ ret r
//@ ensures r == self.attempt()
//@end

//@fn src/subscriptions/pulled_message.rs PulledMessage::modify_deadline tags=C05
//@ ensures[C05] final(self).dl() == new_deadline
//@ ensures[C05] final(self).id() == old(self).id(), final(self).msg() == old(self).msg(), final(self).attempt() == old(self).attempt()
//@end
}

// ======================================================================================
// src/subscriptions/deadline_modification.rs
//@item src/subscriptions/deadline_modification.rs struct DeadlineModification drop-derive=Debug
impl DeadlineModification {
//@fn src/subscriptions/deadline_modification.rs DeadlineModification::new tags=C05
//@ ret r
//@ ensures r.ack_id == ack_id, r.new_deadline == Some(new_deadline)
//@end

//@fn src/subscriptions/deadline_modification.rs DeadlineModification::nack tags=C05
//@ ret r
//@ ensures r.ack_id == ack_id, r.new_deadline.is_none()
//@end
}

// ======================================================================================
// src/subscriptions/outstanding.rs
//@item src/subscriptions/outstanding.rs struct OutstandingMessageTracker

/// the leases held by a tracker: ack id -> lease
pub type Leases = Map<AckId, PulledMessage>;

/// r lists leases of `old` whose deadline is <= time, each at most once
pub open spec fn taken_ok(r: Seq<PulledMessage>, old: Leases, time: int) -> bool {
    &&& forall|i: int| 0 <= i < r.len() ==> old.dom().contains(#[trigger] r[i].id()) && old[r[i].id()] == r[i] && r[i].dl().t() <= time
    &&& forall|i: int, j: int| 0 <= i < j < r.len() ==> r[i].id() != r[j].id()
}
/// r lists leases of `old`, each at most once
pub open spec fn listed_ok(r: Seq<PulledMessage>, old: Leases) -> bool {
    &&& forall|i: int| 0 <= i < r.len() ==> old.dom().contains(#[trigger] r[i].id()) && old[r[i].id()] == r[i]
    &&& forall|i: int, j: int| 0 <= i < j < r.len() ==> r[i].id() != r[j].id()
}

/// s.take(i+1) contains x  iff  s.take(i) contains x or s[i] == x
pub proof fn lemma_take_push<T>(s: Seq<T>, i: int)
    requires 0 <= i < s.len()
    ensures s.take(i + 1) =~= s.take(i).push(s[i]),
        forall|x: T| s.take(i + 1).contains(x) <==> (s.take(i).contains(x) || s[i] == x),
{
    let a = s.take(i + 1);
    let b = s.take(i);
    assert(a =~= b.push(s[i]));
    assert forall|x: T| a.contains(x) <==> (b.contains(x) || s[i] == x) by {
        if a.contains(x) {
            let j = choose|j: int| 0 <= j < a.len() && a[j] == x;
            if j < i { assert(b[j] == x); }
        }
        if b.contains(x) {
            let j = choose|j: int| 0 <= j < b.len() && b[j] == x;
            assert(a[j] == x);
        }
        if s[i] == x { assert(a[i] == x); }
    }
}

/// state threaded through `modify`: remaining leases and the nacked leases so far
pub struct ModState { pub out: Leases, pub nacked: Seq<PulledMessage> }

impl PulledMessage {
    /// the same lease with another deadline
    pub closed spec fn with_deadline(self, d: AckDeadline) -> PulledMessage {
        PulledMessage { message: self.message, ack_id: self.ack_id, deadline: d, delivery_attempt: self.delivery_attempt }
    }
}
/// effect of one modification (C05): unknown id -> nothing; Some(d) -> deadline replaced; None -> lease leaves, is nacked
pub open spec fn apply_mod(st: ModState, m: DeadlineModification) -> ModState {
    if !st.out.dom().contains(m.ack_id) {
        st
    } else if m.new_deadline.is_some() {
        ModState { out: st.out.insert(m.ack_id, st.out[m.ack_id].with_deadline(m.new_deadline.unwrap())), nacked: st.nacked }
    } else {
        ModState { out: st.out.remove(m.ack_id), nacked: st.nacked.push(st.out[m.ack_id]) }
    }
}
pub open spec fn apply_mods(st: ModState, mods: Seq<DeadlineModification>) -> ModState
    decreases mods.len()
{
    if mods.len() == 0 { st } else { apply_mod(apply_mods(st, mods.drop_last()), mods.last()) }
}
pub proof fn lemma_apply_mods_step(st: ModState, mods: Seq<DeadlineModification>, i: int)
    requires 0 <= i < mods.len()
    ensures apply_mods(st, mods.take(i + 1)) == apply_mod(apply_mods(st, mods.take(i)), mods[i])
{
    assert(mods.take(i + 1).drop_last() =~= mods.take(i));
    assert(mods.take(i + 1).last() == mods[i]);
}

impl OutstandingMessageTracker {
    /// representation invariant: `messages` and `expirations` describe the same set of leases
    pub closed spec fn wf(&self) -> bool {
        &&& forall|id: AckId| self.messages@.dom().contains(id) ==>
              self.messages@[id].ack_id == id && self.expirations@.contains((self.messages@[id].deadline, id))
        &&& forall|k: Key| self.expirations@.contains(k) ==>
              self.messages@.dom().contains(k.1) && self.messages@[k.1].deadline == k.0
    }
    pub closed spec fn view(&self) -> Leases { self.messages@ }

    proof fn lemma_empty_iff(&self)
        requires self.wf()
        ensures self.expirations@.len() == 0 <==> self@.dom().len() == 0
    {
        if self.expirations@.len() == 0 {
            self.expirations@.lemma_len0_is_empty();
            assert(self@.dom() =~= Set::<AckId>::empty());
        }
        if self@.dom().len() == 0 {
            self@.dom().lemma_len0_is_empty();
            assert(self.expirations@ =~= Set::<Key>::empty());
        }
    }

//@fn src/subscriptions/outstanding.rs OutstandingMessageTracker::new tags=C03
//@ ret r
//@ ensures r.wf(), r@ == Leases::empty()
//@end

//@fn src/subscriptions/outstanding.rs OutstandingMessageTracker::add tags=C03
//@ requires old(self).wf()
//@ requires[C03] !old(self)@.dom().contains(message.id())
//@ ensures[C03] final(self).wf()
//@ ensures[C03] final(self)@ == old(self)@.insert(message.id(), message)
//@end

//@fn src/subscriptions/outstanding.rs OutstandingMessageTracker::next_expiration tags=C04
//@ ret r
//@ requires self.wf()
//@ closure 1 ret d: AckDeadline
//@ closure 1 ensures d == $1.0
//@ proof-start { self.lemma_empty_iff(); }
//@ ensures[C04] r.is_none() <==> self@.dom().len() == 0
//@ ensures[C04] r.is_some() ==> exists|id: AckId| self@.dom().contains(id) && self@[id].dl() == r.unwrap()
//@ ensures[C04] r.is_some() ==> forall|id: AckId| self@.dom().contains(id) ==> r.unwrap().t() <= self@[id].dl().t()
//@end

//@fn src/subscriptions/outstanding.rs OutstandingMessageTracker::take_expired tags=C04
//@ ret result
//@ requires old(self).wf()
//@ ensures[C04] final(self).wf()
//@ # exactly the leases with deadline <= time leave the tracker
//@ ensures[C04] forall|id: AckId| #![trigger final(self)@.dom().contains(id)] #![trigger old(self)@.dom().contains(id)] final(self)@.dom().contains(id) <==> (old(self)@.dom().contains(id) && time.v() < old(self)@[id].dl().t())
//@ ensures[C04] forall|id: AckId| final(self)@.dom().contains(id) ==> final(self)@[id] == old(self)@[id]
//@ ensures[C04] taken_ok(result@, old(self)@, time.v())
//@ ensures[C01] result.len() + final(self)@.dom().len() == old(self)@.dom().len()
//@ # C01: every lease that leaves the tracker is handed back (nothing is dropped on expiry)
//@ ensures[C01] forall|id: AckId| old(self)@.dom().contains(id) && !final(self)@.dom().contains(id) ==> exists|i: int| 0 <= i < result.len() && (#[trigger] result[i]).id() == id
//@ loop 1 invariant self.wf()
//@ loop 1 invariant forall|id: AckId| self@.dom().contains(id) ==> old(self)@.dom().contains(id) && self@[id] == old(self)@[id]
//@ loop 1 invariant forall|id: AckId| old(self)@.dom().contains(id) && !self@.dom().contains(id) ==> old(self)@[id].dl().t() <= time.v()
//@ loop 1 invariant taken_ok(result@, old(self)@, time.v())
//@ loop 1 invariant forall|i: int| 0 <= i < result.len() ==> !self@.dom().contains(#[trigger] result[i].id())
//@ loop 1 invariant[C01] result.len() + self@.dom().len() == old(self)@.dom().len()
//@ loop 1 invariant[C01] forall|id: AckId| old(self)@.dom().contains(id) && !self@.dom().contains(id) ==> exists|i: int| 0 <= i < result.len() && (#[trigger] result[i]).id() == id
//@ loop 1 ensures self.expirations@.len() == 0
//@ loop 1 decreases self.expirations@.len()
//@ proof-before /^\s*result\s*$/ { self.expirations@.lemma_len0_is_empty(); }
//@ ghost-before /result\.push\(message\);/ let ghost prev = result@;
//@ loop 1 proof-end { assert forall|id: AckId| old(self)@.dom().contains(id) && !self@.dom().contains(id) implies exists|i: int| 0 <= i < result.len() && (#[trigger] result[i]).id() == id by { if id == ack_id { assert(result[result.len() - 1].id() == id); } else { let i = choose|i: int| 0 <= i < prev.len() && (#[trigger] prev[i]).id() == id; assert(result[i] == prev[i]); } } }
//@end

//@fn src/subscriptions/outstanding.rs OutstandingMessageTracker::remove tags=C02
//@ instantiate I=std::vec::IntoIter<AckId>
//@ ret result
//@ requires old(self).wf()
//@ requires IteratorSpec::obeys_prophetic_iter_laws(&ack_ids), IteratorSpec::decrease(&ack_ids).is_some()
//@ ensures[C02] final(self).wf()
//@ # exactly the named live leases leave; unknown / stale / repeated ids are no-ops
//@ ensures[C02] forall|id: AckId| #![trigger final(self)@.dom().contains(id)] #![trigger old(self)@.dom().contains(id)] final(self)@.dom().contains(id) <==> (old(self)@.dom().contains(id) && !IteratorSpec::remaining(&ack_ids).contains(id))
//@ # frame: every lease that stays is unchanged
//@ ensures[C02] forall|id: AckId| final(self)@.dom().contains(id) ==> final(self)@[id] == old(self)@[id]
//@ ensures[C02] listed_ok(result@, old(self)@)
//@ ensures[C02] forall|i: int| 0 <= i < result.len() ==> IteratorSpec::remaining(&ack_ids).contains(#[trigger] result[i].id())
//@ ensures[C02] result.len() + final(self)@.dom().len() == old(self)@.dom().len()
//@ loop 1 iter it
//@ loop 1 invariant self.wf()
//@ loop 1 invariant it.seq() == IteratorSpec::remaining(&ack_ids)
//@ loop 1 invariant forall|id: AckId| self@.dom().contains(id) <==> (old(self)@.dom().contains(id) && !it.seq().take(it.index()).contains(id))
//@ loop 1 invariant forall|id: AckId| self@.dom().contains(id) ==> self@[id] == old(self)@[id]
//@ loop 1 invariant listed_ok(result@, old(self)@)
//@ loop 1 invariant forall|i: int| 0 <= i < result.len() ==> it.seq().take(it.index()).contains(#[trigger] result[i].id())
//@ loop 1 invariant result.len() + self@.dom().len() == old(self)@.dom().len()
//@ loop 1 proof-start { lemma_take_push(it.seq(), it.index()); }
//@ proof-before /^\s*result\s*$/ { let s = IteratorSpec::remaining(&ack_ids); assert(s.take(s.len() as int) =~= s); }
//@end

//@fn src/subscriptions/outstanding.rs OutstandingMessageTracker::modify tags=C05
//@ ret result
//@ requires old(self).wf()
//@ ensures[C05] final(self).wf()
//@ # complete functional spec: the modifications are applied one by one, in request order
//@ ensures[C05] (ModState { out: final(self)@, nacked: result@ }) == apply_mods(ModState { out: old(self)@, nacked: Seq::empty() }, modifications@)
//@ loop 1 iter it
//@ loop 1 invariant self.wf()
//@ loop 1 invariant it.seq() == modifications@
//@ loop 1 invariant self@ =~= apply_mods(ModState { out: old(self)@, nacked: Seq::empty() }, it.seq().take(it.index())).out
//@ loop 1 invariant result@ =~= apply_mods(ModState { out: old(self)@, nacked: Seq::empty() }, it.seq().take(it.index())).nacked
//@ loop 1 proof-start { lemma_apply_mods_step(ModState { out: old(self)@, nacked: Seq::empty() }, it.seq(), it.index()); }
//@ proof-before /^\s*result\s*$/ { assert(modifications@.take(modifications@.len() as int) =~= modifications@); }
//@end

//@fn src/subscriptions/outstanding.rs OutstandingMessageTracker::clear tags=C11
//@ requires old(self).wf()
//@ ensures[C11] final(self).wf(), final(self)@ == Leases::empty()
//@end

//@fn src/subscriptions/outstanding.rs OutstandingMessageTracker::len tags=C15
//@ ret r
//@ requires self.wf()
//@ ensures r == self@.dom().len()
//@end
}

// ======================================================================================
// src/collections/messages.rs
//@item src/collections/messages.rs struct Messages

/// the sequence of items an `IntoIterator` argument yields (TRUSTED link to the call-site shapes, A-STD)
pub use ax2::{yielded, consumed};
pub mod ax2 {
    use super::*;
    pub uninterp spec fn yielded<I: IntoIterator>(i: I) -> Seq<I::Item>;
    /// `i` was handed to a function that drains it completely (only ever established by Messages::append's contract)
    pub uninterp spec fn consumed<I: IntoIterator>(i: I) -> bool;
    // TRUSTED (A-STD): a Vec yields its elements in order
    pub broadcast axiom fn axiom_yielded_vec<T>(v: Vec<T>)
        ensures #[trigger] yielded::<Vec<T>>(v) == v@;
    // TRUSTED (A-STD): a drained iterator that obeys vstd's prophetic iterator laws has yielded exactly its
    // `remaining()` sequence and has returned None (same shape as vstd's contract of Iterator::collect)
    pub broadcast axiom fn axiom_yielded_iter<I: Iterator>(i: I)
        requires IteratorSpec::obeys_prophetic_iter_laws(&i), consumed::<I>(i)
        ensures IteratorSpec::will_return_none(&i), #[trigger] yielded::<I>(i) == IteratorSpec::remaining(&i);
}

impl Messages {
    pub closed spec fn view(&self) -> Seq<Arc<TopicMessage>> { self.list@ }

//@fn src/collections/messages.rs Messages::new tags=C01
//@ ret r
//@ ensures r@ == Seq::<Arc<TopicMessage>>::empty()
//@end

    // TRUSTED (A-STD): `Messages::append<I>` (size_hint + reserve + VecDeque::extend) is outside Verus' reach:
    // `Iterator::size_hint` cannot be given a specification (the trait is already externally specified by vstd).
    // Assumed contract = std's documented behaviour of `VecDeque::extend`; cross-checked by the bounded Kani
    // harness `messages_append_bounded` on the real function.
//@fn src/collections/messages.rs Messages::append tags=C01
//@ attr #[verifier::external_body]
//@ ensures[C01] final(self)@ == old(self)@ + yielded(messages_iter), consumed(messages_iter)
//@end

//@fn src/collections/messages.rs Messages::len tags=C15
//@ ret r
//@ ensures r == self@.len()
//@end

//@fn src/collections/messages.rs Messages::is_empty tags=C15
//@ ret r
//@ ensures r == (self@.len() == 0)
//@end

//@fn src/collections/messages.rs Messages::pop_front tags=C08
//@ ret r
//@ ensures[C08] old(self)@.len() == 0 ==> r.is_none() && final(self)@ == old(self)@
//@ ensures[C08] old(self)@.len() > 0 ==> r == Some(old(self)@[0]) && final(self)@ == old(self)@.subrange(1, old(self)@.len() as int)
//@end

//@fn src/collections/messages.rs Messages::clear tags=C11
//@ ensures final(self)@ == Seq::<Arc<TopicMessage>>::empty()
//@end
}

// ======================================================================================
// src/subscriptions/subscription_actor.rs  (+ the types it needs)
//@include prelude/actor_stubs.rs
//@item src/subscriptions/subscription.rs struct SubscriptionInfo drop-derive=Debug,Clone
// TRUSTED (A-DERIVE): derived Clone is field-wise
impl Clone for SubscriptionInfo {
    #[verifier::external_body]
    fn clone(&self) -> (r: Self) ensures r == *self { unimplemented!() }
}
//@item src/subscriptions/stats.rs struct SubscriptionStats drop-derive=Debug,Clone
impl SubscriptionStats {
//@fn src/subscriptions/stats.rs SubscriptionStats::new
//@ ret r
//@ ensures r.outstanding_messages_count == outstanding_messages_count, r.backlog_messages_count == backlog_messages_count
//@end
}
//@item src/subscriptions/errors.rs enum GetInfoError drop-derive=thiserror::Error strip-attr=error
//@item src/subscriptions/errors.rs enum PullMessagesError drop-derive=thiserror::Error strip-attr=error
//@item src/subscriptions/errors.rs enum AcknowledgeMessagesError drop-derive=thiserror::Error strip-attr=error
//@item src/subscriptions/errors.rs enum ModifyDeadlineError drop-derive=thiserror::Error strip-attr=error
//@item src/subscriptions/errors.rs enum DeleteError drop-derive=thiserror::Error strip-attr=error
//@item src/subscriptions/errors.rs enum GetStatsError drop-derive=thiserror::Error strip-attr=error
//@item src/subscriptions/subscription_actor.rs const MAX_PULL_COUNT
//@item src/subscriptions/subscription_actor.rs enum SubscriptionRequest
//@item src/subscriptions/subscription_actor.rs struct SubscriptionActor

// ======================================================================================
// src/subscriptions/subscription.rs: the handle in front of the actor's mailbox (async fns, whole bodies)
//@item src/subscriptions/errors.rs enum PostMessagesError drop-derive=thiserror::Error strip-attr=error
/// TRUSTED (A-STUB): the mailbox field of `Subscription` (its other fields are not read by the methods below)
pub struct Subscription { pub sender: mpsc::Sender<SubscriptionRequest> }
impl Subscription {
//@fn src/subscriptions/subscription.rs Subscription::pull_messages tags=C15
//@ ret r
//@ # OK means: exactly one PullMessages request with the caller's limit was put into the actor's mailbox
//@ ensures[C15] r.is_ok() ==> exists|responder: oneshot::Sender<Result<Vec<PulledMessage>, PullMessagesError>>| #[trigger] mpsc::sent(self.sender, SubscriptionRequest::PullMessages { max_count, responder })
//@end
//@fn src/subscriptions/subscription.rs Subscription::post_messages tags=C01
//@ ret r
//@ ensures[C01] r.is_ok() ==> mpsc::sent(self.sender, SubscriptionRequest::PostMessages { messages: new_messages })
//@end
//@fn src/subscriptions/subscription.rs Subscription::acknowledge_messages tags=C02
//@ ret r
//@ ensures[C02] r.is_ok() ==> exists|responder: oneshot::Sender<Result<(), AcknowledgeMessagesError>>| #[trigger] mpsc::sent(self.sender, SubscriptionRequest::AcknowledgeMessages { ack_ids, responder })
//@end
//@fn src/subscriptions/subscription.rs Subscription::modify_ack_deadlines tags=C05
//@ ret r
//@ ensures[C05] r.is_ok() ==> exists|responder: oneshot::Sender<Result<(), ModifyDeadlineError>>| #[trigger] mpsc::sent(self.sender, SubscriptionRequest::ModifyDeadline { deadline_modifications, responder })
//@end
//@fn src/subscriptions/subscription.rs Subscription::delete tags=C11
//@ ret r
//@ ensures[C11] r.is_ok() ==> exists|responder: oneshot::Sender<Result<(), DeleteError>>| #[trigger] mpsc::sent(self.sender, SubscriptionRequest::Delete { responder })
//@end
}

/// abstract state of one subscription (DESIGN §6)
pub struct SubView {
    pub backlog: Seq<Arc<TopicMessage>>,
    pub out: Leases,
    pub next: int,
    pub deleted: bool,
}

/// number of messages one pull hands out (mirrors the capacity rule of pull_messages, incl. the u16 truncation)
/// `usize as u16` truncates (machine arithmetic, proved in Verus' bit-vector mode)
pub proof fn lemma_trunc_u16(l: usize)
    ensures l as u16 == (l % 0x1_0000) as u16
{
    assert(l as u16 == (l % 0x1_0000) as u16) by (bit_vector);
}
spec fn pull_cap(backlog_len: int, max_count: u16) -> int {
    let outgoing = (backlog_len % 0x1_0000) as int;
    let hi = if outgoing > MAX_PULL_COUNT as int { outgoing } else { MAX_PULL_COUNT as int };
    if (max_count as int) > hi { hi } else { max_count as int }
}
/// C15 at the actor: at most max_count messages (at most one when the 16-bit limit is 0, which a unary
/// max_messages = k * 65536 turns into), and none only when nothing is queued
pub open spec fn count_ok(n: int, backlog_len: int, max_count: u16) -> bool {
    &&& n <= backlog_len
    &&& n <= (if max_count == 0 { 1 } else { max_count as int })
    &&& (n == 0 <==> backlog_len == 0)
}
spec fn pull_count(backlog_len: int, max_count: u16) -> int {
    let cap = pull_cap(backlog_len, max_count);
    if backlog_len == 0 { 0 } else if cap == 0 { 1 } else if backlog_len < cap { backlog_len } else { cap }
}
/// deadline given at hand-out instant `now` with subscription ack deadline `d` (what AckDeadline::new guarantees)
pub open spec fn lease_deadline_ok(dl: AckDeadline, now: int, d: nat) -> bool {
    now + d - 1000 < dl.t() < now + d + grid_ns()
}
/// the result of one pull from state `s` at instant `now`: the first n backlog messages in order, fresh
/// consecutive ack ids, every deadline = now + d within the rounding slack
pub open spec fn pulled_ok(v: Seq<PulledMessage>, s: SubView, n: int, now: int, d: nat) -> bool {
    v.len() == n && pulled_msgs(v, s) && pulled_ids(v, s) && pulled_deadlines(v, now, d)
}
/// C08: the batch is the first |v| backlog messages in order
pub open spec fn pulled_msgs(v: Seq<PulledMessage>, s: SubView) -> bool {
    v.len() <= s.backlog.len() && forall|i: int| 0 <= i < v.len() ==> (#[trigger] v[i]).msg() == s.backlog[i]
}
/// C03: ack ids are the next unused ones, consecutive
pub open spec fn pulled_ids(v: Seq<PulledMessage>, s: SubView) -> bool {
    forall|i: int| 0 <= i < v.len() ==> (#[trigger] v[i]).id().v() == s.next + i
}
/// C04: every lease of the batch expires ack-deadline after the hand-out instant (rounding slack < 100 ms)
pub open spec fn pulled_deadlines(v: Seq<PulledMessage>, now: int, d: nat) -> bool {
    forall|i: int| 0 <= i < v.len() ==> lease_deadline_ok((#[trigger] v[i]).dl(), now, d)
}
pub open spec fn out_after_pull(s: SubView, v: Seq<PulledMessage>) -> Leases
    decreases v.len()
{
    if v.len() == 0 { s.out } else { out_after_pull(s, v.drop_last()).insert(v.last().id(), v.last()) }
}

/// effect of a ModifyAckDeadline turn on the subscription view
pub open spec fn modify_view(s: SubView, mods: Seq<DeadlineModification>) -> SubView {
    let st = apply_mods(ModState { out: s.out, nacked: Seq::empty() }, mods);
    SubView { out: st.out, backlog: s.backlog + st.nacked.map_values(|p: PulledMessage| p.msg()), ..s }
}
pub open spec fn pull_view(s: SubView, v: Seq<PulledMessage>) -> SubView {
    SubView { backlog: s.backlog.skip(v.len() as int), out: out_after_pull(s, v), next: s.next + v.len(), deleted: false }
}
/// what one pull returns from state s (conjunction of the C15 / C08 / C03 / C04 clauses of pull_messages)
pub open spec fn pull_result_ok(v: Seq<PulledMessage>, s: SubView, max_count: u16, d: nat) -> bool {
    &&& count_ok(v.len() as int, s.backlog.len() as int, max_count)
    &&& pulled_msgs(v, s)
    &&& pulled_ids(v, s)
    &&& exists|now: Instant| pulled_deadlines(v, now.v(), d)
}
/// state after a Delete request: unchanged if already deleted; emptied and marked deleted; or (topic mailbox closed,
/// the request fails) only marked deleted
pub open spec fn delete_view_ok(s: SubView, t: SubView) -> bool {
    ||| (s.deleted && t == s)
    ||| t == (SubView { backlog: Seq::empty(), out: Map::empty(), next: s.next, deleted: true })
    ||| t == (SubView { deleted: true, ..s })
}
/// state effect of one mailbox turn of the subscription actor
pub open spec fn turn_ok(s: SubView, request: SubscriptionRequest, t: SubView, d: nat) -> bool {
    match request {
        SubscriptionRequest::PostMessages { messages } =>
            if s.deleted { t == s } else { t == (SubView { backlog: s.backlog + messages@, ..s }) },
        SubscriptionRequest::GetInfo { responder } => t == s,
        SubscriptionRequest::PullMessages { max_count, responder } =>
            if s.deleted { t == s } else {
                exists|v: Seq<PulledMessage>| pull_result_ok(v, s, max_count, d) && t == pull_view(s, v)
            },
        SubscriptionRequest::AcknowledgeMessages { ack_ids, responder } =>
            if s.deleted { t == s } else { t == (SubView { out: s.out.remove_keys(ack_ids@.to_set()), ..s }) },
        SubscriptionRequest::ModifyDeadline { deadline_modifications, responder } =>
            if s.deleted { t == s } else { t == modify_view(s, deadline_modifications@) },
        SubscriptionRequest::Delete { responder } => delete_view_ok(s, t),
        SubscriptionRequest::GetStats { responder } => t == s,
    }
}
pub open spec fn leases_inv(out: Leases, next: int) -> bool {
    forall|id: AckId| out.dom().contains(id) ==> id.v() < next && out[id].id() == id
}
pub proof fn lemma_apply_mods_inv(st: ModState, mods: Seq<DeadlineModification>, next: int)
    requires leases_inv(st.out, next)
    ensures leases_inv(apply_mods(st, mods).out, next)
    decreases mods.len()
{
    if mods.len() > 0 {
        lemma_apply_mods_inv(st, mods.drop_last(), next);
        let st1 = apply_mods(st, mods.drop_last());
        let m = mods.last();
        let st2 = apply_mod(st1, m);
        assert(apply_mods(st, mods) == st2);
        assert forall|id: AckId| st2.out.dom().contains(id) implies id.v() < next && st2.out[id].id() == id by {
            assert(st1.out.dom().contains(id));
            assert(st1.out[id].id() == id);
            if id == m.ack_id && m.new_deadline.is_some() {
                assert(st1.out[id].with_deadline(m.new_deadline.unwrap()).id() == st1.out[id].id());
            }
        }
    } else {
        assert(apply_mods(st, mods) == st);
    }
}

impl SubscriptionActor {
    pub closed spec fn view(&self) -> SubView {
        SubView { backlog: self.backlog@, out: self.outstanding@, next: self.next_ack_id.v(), deleted: self.deleted }
    }
    pub closed spec fn ack_deadline(&self) -> nat { dur_ns(self.info.ack_deadline) }
    /// actor invariant: tracker well-formed; every lease is filed under its own id; ack ids in use are below `next`
    pub closed spec fn inv(&self) -> bool {
        &&& self.outstanding.wf()
        &&& forall|id: AckId| self.outstanding@.dom().contains(id) ==> id.v() < self.next_ack_id.v() && self.outstanding@[id].id() == id
        &&& self.ack_deadline() <= 0x2000_0000_0000_0000
    }

//@fn src/subscriptions/subscription_actor.rs SubscriptionActor::receive tags=C03
//@ requires old(self).inv()
//@ requires old(self)@.next + old(self)@.backlog.len() < u64::MAX
//@ ensures final(self).inv()
//@ # every request variant is dispatched to exactly its handler (state effect of one actor turn)
//@ ensures[C01] request is PostMessages ==> turn_ok(old(self)@, request, final(self)@, old(self).ack_deadline())
//@ ensures[C03] request is PullMessages ==> turn_ok(old(self)@, request, final(self)@, old(self).ack_deadline())
//@ ensures[C02] request is AcknowledgeMessages ==> turn_ok(old(self)@, request, final(self)@, old(self).ack_deadline())
//@ ensures[C05] request is ModifyDeadline ==> turn_ok(old(self)@, request, final(self)@, old(self).ack_deadline())
//@ ensures[C11] request is Delete ==> turn_ok(old(self)@, request, final(self)@, old(self).ack_deadline())
//@ ensures[C02] (request is GetInfo || request is GetStats) ==> turn_ok(old(self)@, request, final(self)@, old(self).ack_deadline())
//@ ghost-before /self\.post_messages\(messages\);/ let ghost posted = messages@;
//@ proof-after[C01] /self\.post_messages\(messages\);/ { if !old(self)@.deleted { assert(self@ =~= (SubView { backlog: old(self)@.backlog + posted, ..old(self)@ })); } }
//@ ghost-before /let result = self\.acknowledge_messages\(ack_ids\);/ let ghost acked = ack_ids@;
//@ proof-after[C02] /let result = self\.acknowledge_messages\(ack_ids\);/ { if !old(self)@.deleted { assert(self@ =~= (SubView { out: old(self)@.out.remove_keys(acked.to_set()), ..old(self)@ })); } }
//@ ghost-before /let result = self\.modify_deadline\(deadline_modifications\);/ let ghost mods = deadline_modifications@;
//@ proof-after[C05] /let result = self\.modify_deadline\(deadline_modifications\);/ { if !old(self)@.deleted { assert(self@ =~= modify_view(old(self)@, mods)); } }
//@ proof-after[C03] /let result = self\.pull_messages\(max_count\);/ { if !old(self)@.deleted { assert(pull_result_ok(result.unwrap()@, old(self)@, max_count, old(self).ack_deadline())); assert(self@ =~= pull_view(old(self)@, result.unwrap()@)); } }
//@end

//@fn src/subscriptions/subscription_actor.rs SubscriptionActor::get_info tags=C10
//@ ret r
//@ requires old(self).inv()
//@ ensures final(self).inv()
//@ ensures[C10] r.is_ok() && r.unwrap() == old(self).info
//@ ensures[C10] final(self)@ == old(self)@
//@end

//@fn src/subscriptions/subscription_actor.rs SubscriptionActor::pull_messages tags=C03
//@ ret r
//@ requires old(self).inv()
//@ # A-ARITH: fewer than 2^64 deliveries per subscription
//@ requires old(self)@.next + old(self)@.backlog.len() < u64::MAX
//@ ensures[C03] final(self).inv()
//@ ensures[C03] r.is_ok()
//@ ensures[C11] old(self)@.deleted ==> r.unwrap()@.len() == 0 && final(self)@ == old(self)@
//@ # C15: batch size (incl. the u16 truncation of the backlog length); non-empty iff the backlog is non-empty
//@ ensures[C15] !old(self)@.deleted ==> count_ok(r.unwrap()@.len() as int, old(self)@.backlog.len() as int, max_count)
//@ # C08: the batch is the first n backlog messages, in order
//@ ensures[C08] !old(self)@.deleted ==> pulled_msgs(r.unwrap()@, old(self)@)
//@ # C03: fresh consecutive ack ids
//@ ensures[C03] !old(self)@.deleted ==> pulled_ids(r.unwrap()@, old(self)@)
//@ # C04: every deadline = hand-out instant + subscription ack deadline (within the rounding slack)
//@ ensures[C04] !old(self)@.deleted ==> exists|now: Instant| pulled_deadlines(r.unwrap()@, now.v(), old(self).ack_deadline())
//@ # C03: hand-out moves backlog -> outstanding in the same turn; nothing else changes. The same clause carries C01 and
//@ # C08: a message leaves the backlog only as part of the response (lemma_fifo_pull and the no-loss lemma rest on it)
//@ ensures[C03,C01,C08] !old(self)@.deleted ==> final(self)@.backlog =~= old(self)@.backlog.skip(r.unwrap()@.len() as int)
//@ # every handed-out message is tracked as outstanding under its ack id (else it could never be redelivered: C01, C04)
//@ ensures[C01,C04] !old(self)@.deleted ==> final(self)@.out =~= out_after_pull(old(self)@, r.unwrap()@)
//@ ensures[C03] !old(self)@.deleted ==> final(self)@.next == old(self)@.next + r.unwrap()@.len() && !final(self)@.deleted
//@ loop 1 invariant[C03] self.inv(), !self.deleted, self.ack_deadline() == old(self).ack_deadline()
//@ loop 1 invariant[C04] deadline.v() == now.v() + old(self).ack_deadline()
//@ loop 1 invariant[C15] capacity == pull_cap(old(self)@.backlog.len() as int, max_count)
//@ loop 1 invariant[C15] result@.len() <= old(self)@.backlog.len()
//@ loop 1 invariant[C08] pulled_msgs(result@, old(self)@)
//@ loop 1 invariant[C03] pulled_ids(result@, old(self)@)
//@ loop 1 invariant[C04] pulled_deadlines(result@, now.v(), old(self).ack_deadline())
//@ loop 1 invariant[C08] self@.backlog =~= old(self)@.backlog.skip(result@.len() as int)
//@ loop 1 invariant[C01,C04] self@.out =~= out_after_pull(old(self)@, result@)
//@ loop 1 invariant[C03] self@.next == old(self)@.next + result@.len()
//@ loop 1 invariant[C04] epoch().v() <= now.v() <= now_max()
//@ loop 1 invariant[C03] old(self)@.next + old(self)@.backlog.len() < u64::MAX
//@ loop 1 invariant_except_break[C15] result@.len() == 0 || result@.len() < capacity
//@ loop 1 ensures[C15] result@.len() == pull_count(old(self)@.backlog.len() as int, max_count)
//@ loop 1 decreases self.backlog@.len()
//@ proof-after[C15] /let outgoing_len = / { lemma_trunc_u16(self.backlog@.len() as usize); }
//@ proof-before[C03] /let ack_id = self\.next_ack_id;/ { assert(old(self)@.backlog.skip(result@.len() as int).len() == old(self)@.backlog.len() - result@.len()); }
//@ ghost-before /result\.push\(/ let ghost prev = result@;
//@ proof-after[C03] /self\.outstanding\.add\(/ { assert(result@.drop_last() =~= prev); }
//@end

//@fn src/subscriptions/subscription_actor.rs SubscriptionActor::acknowledge_messages tags=C02
//@ ret r
//@ requires old(self).inv()
//@ ensures[C02] final(self).inv()
//@ ensures r.is_ok()
//@ ensures[C11] old(self)@.deleted ==> final(self)@ == old(self)@
//@ # C02: exactly the named live leases leave `out`; backlog, counter and every other lease are untouched
//@ ensures[C02] !old(self)@.deleted ==> final(self)@.out =~= old(self)@.out.remove_keys(ack_ids@.to_set())
//@ ensures[C02] !old(self)@.deleted ==> final(self)@.backlog == old(self)@.backlog && final(self)@.next == old(self)@.next && !final(self)@.deleted
//@end

//@fn src/subscriptions/subscription_actor.rs SubscriptionActor::modify_deadline tags=C05
//@ ret r
//@ requires old(self).inv()
//@ ensures[C05] final(self).inv()
//@ ensures r.is_ok()
//@ ensures[C11] old(self)@.deleted ==> final(self)@ == old(self)@
//@ # C05: deadlines replaced / nacked leases go back to the end of the backlog in the same turn
//@ ensures[C05] !old(self)@.deleted ==> final(self)@.out =~= modify_view(old(self)@, deadline_modifications@).out
//@ ensures[C05] !old(self)@.deleted ==> final(self)@.backlog =~= modify_view(old(self)@, deadline_modifications@).backlog
//@ ensures[C05] !old(self)@.deleted ==> final(self)@.next == old(self)@.next && !final(self)@.deleted
//@ closure 1 ret msg: Arc<TopicMessage>
//@ closure 1 ensures msg == $1.msg()
//@ proof-after /let nacks = self\.outstanding\.modify/ { lemma_apply_mods_inv(ModState { out: old(self)@.out, nacked: Seq::empty() }, deadline_modifications@, old(self)@.next); }
//@end

//@fn src/subscriptions/subscription_actor.rs SubscriptionActor::handle_expired_messages tags=C04
//@ requires old(self).inv()
//@ ensures final(self).inv()
//@ # C04/C01: every expired lease's message goes back to the end of the backlog, nothing else changes
//@ # (C11: also when the topic has been deleted in the meantime - the subscription keeps serving what it holds)
//@ ensures[C01,C04,C11] final(self)@ == (SubView { backlog: old(self)@.backlog + expired@.map_values(|p: PulledMessage| p.msg()), ..old(self)@ })
//@ closure 1 ret msg: Arc<TopicMessage>
//@ closure 1 ensures msg == $1.msg()
//@ proof-before /if !self\.backlog\.is_empty\(\)/ { assert(self@.backlog =~= old(self)@.backlog + expired@.map_values(|p: PulledMessage| p.msg())); }
//@end

//@fn src/subscriptions/subscription_actor.rs SubscriptionActor::get_stats tags=C15
//@ ret r
//@ requires old(self).inv()
//@ ensures final(self)@ == old(self)@, final(self).inv()
//@ ensures r.is_ok() && r.unwrap().outstanding_messages_count == old(self)@.out.dom().len() && r.unwrap().backlog_messages_count == old(self)@.backlog.len()
//@end

//@fn src/subscriptions/subscription_actor.rs SubscriptionActor::delete tags=C11
//@ ret r
//@ requires old(self).inv()
//@ ensures final(self).inv()
//@ ensures[C11] old(self)@.deleted ==> r.is_ok() && final(self)@ == old(self)@
//@ ensures[C11] final(self)@.deleted
//@ ensures[C11] r.is_ok() && !old(self)@.deleted ==> final(self)@ == (SubView { backlog: Seq::empty(), out: Leases::empty(), next: old(self)@.next, deleted: true })
//@ ensures[C11] r.is_err() ==> final(self)@ == (SubView { deleted: true, ..old(self)@ })
//@end

//@fn src/subscriptions/subscription_actor.rs SubscriptionActor::post_messages tags=C01
//@ requires old(self).inv()
//@ ensures final(self).inv()
//@ ensures[C11] old(self)@.deleted ==> final(self)@ == old(self)@
//@ ensures[C01,C08] !old(self)@.deleted ==> final(self)@.backlog =~= old(self)@.backlog + new_messages@
//@ ensures[C01] !old(self)@.deleted ==> final(self)@.out == old(self)@.out && final(self)@.next == old(self)@.next && !final(self)@.deleted
//@end
}

//@tags C01 C02 C03 C04 C08
//@include lemmas/sub_history.rs
//@tags C08
//@include lemmas/sub_fifo.rs
//@tags C01 C02 C03 C04 C08

/// GLUE MIRROR (A-GLUE, not extracted): the expiry branch of the actor loop is
///     Some(expired) = actor.outstanding.poll_next_expired() => actor.handle_expired_messages(expired)
/// and poll_next_expired returns `take_expired(&Instant::now())` when that is non-empty
/// (src/subscriptions/subscription_actor.rs:124-126, src/subscriptions/outstanding.rs:180-186).
/// This two-line mirror checks that the two real contracts compose to the `Expire` step of the history model.
fn expire_turn_mirror(actor: &mut SubscriptionActor, now: &Instant)
    requires old(actor).inv()
    ensures final(actor).inv(), exists|exp: Seq<PulledMessage>| expire_post(old(actor)@, now.v(), exp, final(actor)@)
{
    let expired = actor.outstanding.take_expired(now);
    let ghost exp = expired@;
    actor.handle_expired_messages(expired);
    proof {
        assert(msgs_of(exp) =~= exp.map_values(|p: PulledMessage| p.msg()));
        assert(expire_post(old(actor)@, now.v(), exp, actor@));
    }
}

//@tags C15
/// C15: a unary Pull with max_messages = m >= 1 passes `m as u16` to the actor; whatever that truncation yields,
/// a batch that satisfies the actor's count clause never has more than m messages (and is non-empty iff the backlog
/// is non-empty).
pub proof fn lemma_pull_limit(m: i32, backlog_len: int, n: int)
    requires m >= 1, backlog_len >= 0, count_ok(n, backlog_len, m as u16)
    ensures
        n <= m,
        n == 0 <==> backlog_len == 0,
{
    let c = m as u16;
    assert(m as u16 == (m as u32 % 0x1_0000) as u16) by (bit_vector);
    if c != 0 {
        assert(c as int <= m) by {
            assert(m >= 1 ==> ((m as u32 % 0x1_0000) as u16) as int <= m as int) by (bit_vector);
        }
    }
}
//@tags

} // verus!
// A-STUB: awaiting the receiving half of a oneshot channel (outside the verified text: Verus has no model of `poll`)
impl<T> core::future::Future for oneshot::Receiver<T> {
    type Output = Result<T, oneshot::RecvError>;
    fn poll(self: core::pin::Pin<&mut Self>, _cx: &mut core::task::Context<'_>) -> core::task::Poll<Self::Output> { unimplemented!() }
}
fn main() {}
