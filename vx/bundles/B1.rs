//@bundle title subscription actor core: ack ids, leases, outstanding tracker, backlog, handlers
#![feature(allocator_api)]
#![allow(unused_imports, dead_code, unused_variables, unused_mut)]
use vstd::prelude::*;
use vstd::std_specs::cmp::*;
use vstd::std_specs::hash::*;
use vstd::std_specs::iter::*;
use std::cmp::Ordering;
use std::collections::hash_map::Entry;
use std::collections::{BTreeSet, HashMap, VecDeque};
use std::sync::Arc;
use std::time::Duration;

verus! {

broadcast use {
    vstd::std_specs::hash::group_hash_axioms,
    vstd::std_specs::btree::group_btree_axioms,
    vstd::std_specs::iter::group_iter_axioms,
    ax::axiom_ackid_key_model, ax::axiom_key_cmp, ax::axiom_ackid_cmp,
};

//@include prelude/instant.rs
//@include prelude/collections.rs
//@include prelude/stubs.rs

// ======================================================================================
// src/topics/topic_message.rs (types only; the functions are verified in bundle B4)
//@item src/topics/topic_message.rs struct MessageId
//@item src/topics/topic_message.rs struct TopicMessage

// ======================================================================================
// src/subscriptions/ack_id.rs
//@item src/subscriptions/ack_id.rs struct AckId
// TRUSTED (A-DERIVE): the derived comparison traits of AckId behave field-wise (validated by Kani harness derive_ackid)
impl PartialEqSpecImpl for AckId {
    open spec fn obeys_eq_spec() -> bool { true }
    closed spec fn eq_spec(&self, other: &AckId) -> bool { self.value == other.value }
}
impl PartialOrdSpecImpl for AckId {
    open spec fn obeys_partial_cmp_spec() -> bool { true }
    closed spec fn partial_cmp_spec(&self, other: &AckId) -> Option<Ordering> {
        PartialOrdSpec::partial_cmp_spec(&self.value, &other.value)
    }
}
impl OrdSpecImpl for AckId {
    open spec fn obeys_cmp_spec() -> bool { true }
    closed spec fn cmp_spec(&self, other: &AckId) -> Ordering {
        OrdSpec::cmp_spec(&self.value, &other.value)
    }
}
pub type Key = (AckDeadline, AckId);
pub mod ax {
    use super::*;
    // TRUSTED (A-DERIVE): derived Ord/Hash of the key types obey the total-order / hash-key models
    pub broadcast axiom fn axiom_key_cmp()
        ensures #[trigger] vstd::std_specs::btree::key_obeys_cmp_spec::<Key>();
    pub broadcast axiom fn axiom_ackid_cmp()
        ensures #[trigger] vstd::std_specs::btree::key_obeys_cmp_spec::<AckId>();
    pub broadcast axiom fn axiom_ackid_key_model()
        ensures #[trigger] obeys_key_model::<AckId>();
}
impl AckId {
    pub closed spec fn v(&self) -> int { self.value as int }

//@fn src/subscriptions/ack_id.rs AckId::new tags=C03
//@ ret r
//@ ensures r.v() == value
//@end

//@fn src/subscriptions/ack_id.rs AckId::next tags=C03
//@ ret r
//@ requires[C03] self.v() < u64::MAX
//@ ensures[C03] r.v() == self.v() + 1
//@end
}

// ======================================================================================
// src/subscriptions/pulled_message.rs
//@item src/subscriptions/pulled_message.rs struct AckDeadline
// TRUSTED (A-DERIVE)
impl PartialEqSpecImpl for AckDeadline {
    open spec fn obeys_eq_spec() -> bool { true }
    closed spec fn eq_spec(&self, other: &AckDeadline) -> bool { self.time == other.time }
}
impl PartialOrdSpecImpl for AckDeadline {
    open spec fn obeys_partial_cmp_spec() -> bool { true }
    closed spec fn partial_cmp_spec(&self, other: &AckDeadline) -> Option<Ordering> {
        PartialOrdSpec::partial_cmp_spec(&self.time, &other.time)
    }
}
impl OrdSpecImpl for AckDeadline {
    open spec fn obeys_cmp_spec() -> bool { true }
    closed spec fn cmp_spec(&self, other: &AckDeadline) -> Ordering {
        OrdSpec::cmp_spec(&self.time, &other.time)
    }
}
//@item src/subscriptions/pulled_message.rs struct PulledMessage drop-derive=Clone
// TRUSTED (A-DERIVE): the derived Clone of PulledMessage (dropped above, Verus cannot give it a spec) is field-wise
impl Clone for PulledMessage {
    #[verifier::external_body]
    fn clone(&self) -> (r: Self) ensures r == *self { unimplemented!() }
}

//@hoisted src/subscriptions/pulled_message.rs AckDeadline::new

/// 100 ms rounding grid used by AckDeadline::new, in nanoseconds
pub open spec fn grid_ns() -> int { 100_000_000 }

impl AckDeadline {
    /// instant of the deadline, ns
    pub closed spec fn t(&self) -> int { self.time.v() }

//@fn src/subscriptions/pulled_message.rs AckDeadline::new tags=C04,C05
//@ ret r
//@ requires time.v() >= epoch().v()
//@ requires time.v() - epoch().v() < 0x4000_0000_0000_0000
//@ requires epoch().v() + (time.v() - epoch().v()) + grid_ns() <= instant_max()
//@ # the statement's lower bound "not before that instant"
//@ ensures[C04,C05] r.t() >= time.v()
//@ # weaker lower bound kept separately so that an early firing larger than the 1us truncation still fails a passing clause
//@ ensures[C04,C05] r.t() > time.v() - 1000
//@ # upper bound: "no later than a fixed sub-second slack"
//@ ensures[C04,C05] r.t() < time.v() + grid_ns()
//@end

//@fn src/subscriptions/pulled_message.rs AckDeadline::time tags=C04
//@ ret r
//@ ensures r.v() == self.t()
//@end
}

impl PulledMessage {
    pub closed spec fn id(&self) -> AckId { self.ack_id }
    pub closed spec fn dl(&self) -> AckDeadline { self.deadline }
    pub closed spec fn msg(&self) -> Arc<TopicMessage> { self.message }
    pub closed spec fn attempt(&self) -> u16 { self.delivery_attempt }

//@fn src/subscriptions/pulled_message.rs PulledMessage::new tags=C03,C04
//@ ret r
//@ ensures r.msg() == message, r.id() == ack_id, r.dl() == deadline, r.attempt() == delivery_attempt
//@end

//@fn src/subscriptions/pulled_message.rs PulledMessage::message tags=C09
//@ ret r
//@ ensures *r == self.msg()
//@end

//@fn src/subscriptions/pulled_message.rs PulledMessage::into_message tags=C01,C05
//@ ret r
//@ ensures r == self.msg()
//@end

//@fn src/subscriptions/pulled_message.rs PulledMessage::ack_id tags=C02,C03
//@ ret r
//@ ensures r == self.id()
//@end

//@fn src/subscriptions/pulled_message.rs PulledMessage::deadline tags=C04
//@ ret r
//@ ensures *r == self.dl()
//@end

//@fn src/subscriptions/pulled_message.rs PulledMessage::expiration_key tags=C02,C04
//@ ret r
//@ ensures r == (self.dl(), self.id())
//@end

//@fn src/subscriptions/pulled_message.rs PulledMessage::delivery_attempt
//@ ret r
//@ ensures r == self.attempt()
//@end

//@fn src/subscriptions/pulled_message.rs PulledMessage::modify_deadline tags=C05
//@ ensures[C05] final(self).dl() == new_deadline
//@ ensures[C05] final(self).id() == old(self).id(), final(self).msg() == old(self).msg(), final(self).attempt() == old(self).attempt()
//@end
}

// ======================================================================================
// src/subscriptions/deadline_modification.rs
//@item src/subscriptions/deadline_modification.rs struct DeadlineModification drop-derive=Debug
impl DeadlineModification {
//@fn src/subscriptions/deadline_modification.rs DeadlineModification::new tags=C05
//@ ret r
//@ ensures r.ack_id == ack_id, r.new_deadline == Some(new_deadline)
//@end

//@fn src/subscriptions/deadline_modification.rs DeadlineModification::nack tags=C05
//@ ret r
//@ ensures r.ack_id == ack_id, r.new_deadline.is_none()
//@end
}

// ======================================================================================
// src/subscriptions/outstanding.rs
//@item src/subscriptions/outstanding.rs struct OutstandingMessageTracker

/// the leases held by a tracker: ack id -> lease
pub type Leases = Map<AckId, PulledMessage>;

/// r lists leases of `old` whose deadline is <= time, each at most once
pub open spec fn taken_ok(r: Seq<PulledMessage>, old: Leases, time: int) -> bool {
    &&& forall|i: int| 0 <= i < r.len() ==> old.dom().contains(#[trigger] r[i].id()) && old[r[i].id()] == r[i] && r[i].dl().t() <= time
    &&& forall|i: int, j: int| 0 <= i < j < r.len() ==> r[i].id() != r[j].id()
}
/// r lists leases of `old`, each at most once
pub open spec fn listed_ok(r: Seq<PulledMessage>, old: Leases) -> bool {
    &&& forall|i: int| 0 <= i < r.len() ==> old.dom().contains(#[trigger] r[i].id()) && old[r[i].id()] == r[i]
    &&& forall|i: int, j: int| 0 <= i < j < r.len() ==> r[i].id() != r[j].id()
}

/// s.take(i+1) contains x  iff  s.take(i) contains x or s[i] == x
pub proof fn lemma_take_push<T>(s: Seq<T>, i: int)
    requires 0 <= i < s.len()
    ensures s.take(i + 1) =~= s.take(i).push(s[i]),
        forall|x: T| s.take(i + 1).contains(x) <==> (s.take(i).contains(x) || s[i] == x),
{
    let a = s.take(i + 1);
    let b = s.take(i);
    assert(a =~= b.push(s[i]));
    assert forall|x: T| a.contains(x) <==> (b.contains(x) || s[i] == x) by {
        if a.contains(x) {
            let j = choose|j: int| 0 <= j < a.len() && a[j] == x;
            if j < i { assert(b[j] == x); }
        }
        if b.contains(x) {
            let j = choose|j: int| 0 <= j < b.len() && b[j] == x;
            assert(a[j] == x);
        }
        if s[i] == x { assert(a[i] == x); }
    }
}

/// state threaded through `modify`: remaining leases and the nacked leases so far
pub struct ModState { pub out: Leases, pub nacked: Seq<PulledMessage> }

impl PulledMessage {
    /// the same lease with another deadline
    pub closed spec fn with_deadline(self, d: AckDeadline) -> PulledMessage {
        PulledMessage { message: self.message, ack_id: self.ack_id, deadline: d, delivery_attempt: self.delivery_attempt }
    }
}
/// effect of one modification (C05): unknown id -> nothing; Some(d) -> deadline replaced; None -> lease leaves, is nacked
pub open spec fn apply_mod(st: ModState, m: DeadlineModification) -> ModState {
    if !st.out.dom().contains(m.ack_id) {
        st
    } else if m.new_deadline.is_some() {
        ModState { out: st.out.insert(m.ack_id, st.out[m.ack_id].with_deadline(m.new_deadline.unwrap())), nacked: st.nacked }
    } else {
        ModState { out: st.out.remove(m.ack_id), nacked: st.nacked.push(st.out[m.ack_id]) }
    }
}
pub open spec fn apply_mods(st: ModState, mods: Seq<DeadlineModification>) -> ModState
    decreases mods.len()
{
    if mods.len() == 0 { st } else { apply_mod(apply_mods(st, mods.drop_last()), mods.last()) }
}
pub proof fn lemma_apply_mods_step(st: ModState, mods: Seq<DeadlineModification>, i: int)
    requires 0 <= i < mods.len()
    ensures apply_mods(st, mods.take(i + 1)) == apply_mod(apply_mods(st, mods.take(i)), mods[i])
{
    assert(mods.take(i + 1).drop_last() =~= mods.take(i));
    assert(mods.take(i + 1).last() == mods[i]);
}

impl OutstandingMessageTracker {
    /// representation invariant: `messages` and `expirations` describe the same set of leases
    pub closed spec fn wf(&self) -> bool {
        &&& forall|id: AckId| self.messages@.dom().contains(id) ==>
              self.messages@[id].ack_id == id && self.expirations@.contains((self.messages@[id].deadline, id))
        &&& forall|k: Key| self.expirations@.contains(k) ==>
              self.messages@.dom().contains(k.1) && self.messages@[k.1].deadline == k.0
    }
    pub closed spec fn view(&self) -> Leases { self.messages@ }

    proof fn lemma_empty_iff(&self)
        requires self.wf()
        ensures self.expirations@.len() == 0 <==> self@.dom().len() == 0
    {
        if self.expirations@.len() == 0 {
            self.expirations@.lemma_len0_is_empty();
            assert(self@.dom() =~= Set::<AckId>::empty());
        }
        if self@.dom().len() == 0 {
            self@.dom().lemma_len0_is_empty();
            assert(self.expirations@ =~= Set::<Key>::empty());
        }
    }

//@fn src/subscriptions/outstanding.rs OutstandingMessageTracker::new tags=C02,C03
//@ ret r
//@ ensures r.wf(), r@ == Leases::empty()
//@end

//@fn src/subscriptions/outstanding.rs OutstandingMessageTracker::add tags=C02,C03,C04
//@ requires old(self).wf()
//@ requires[C03] !old(self)@.dom().contains(message.id())
//@ ensures[C02,C03,C04] final(self).wf()
//@ ensures[C03,C04] final(self)@ == old(self)@.insert(message.id(), message)
//@end

//@fn src/subscriptions/outstanding.rs OutstandingMessageTracker::next_expiration tags=C04
//@ ret r
//@ requires self.wf()
//@ closure 1 ret d: AckDeadline
//@ closure 1 ensures d == s.0
//@ proof-start { self.lemma_empty_iff(); }
//@ ensures[C04] r.is_none() <==> self@.dom().len() == 0
//@ ensures[C04] r.is_some() ==> exists|id: AckId| self@.dom().contains(id) && self@[id].dl() == r.unwrap()
//@ ensures[C04] r.is_some() ==> forall|id: AckId| self@.dom().contains(id) ==> r.unwrap().t() <= self@[id].dl().t()
//@end

//@fn src/subscriptions/outstanding.rs OutstandingMessageTracker::take_expired tags=C02,C04
//@ ret result
//@ requires old(self).wf()
//@ ensures[C02,C04] final(self).wf()
//@ # exactly the leases with deadline <= time leave the tracker
//@ ensures[C04] forall|id: AckId| final(self)@.dom().contains(id) <==> (old(self)@.dom().contains(id) && time.v() < old(self)@[id].dl().t())
//@ ensures[C02,C04] forall|id: AckId| final(self)@.dom().contains(id) ==> final(self)@[id] == old(self)@[id]
//@ ensures[C02,C04] taken_ok(result@, old(self)@, time.v())
//@ ensures[C01,C04] result.len() + final(self)@.dom().len() == old(self)@.dom().len()
//@ loop 1 invariant self.wf()
//@ loop 1 invariant forall|id: AckId| self@.dom().contains(id) ==> old(self)@.dom().contains(id) && self@[id] == old(self)@[id]
//@ loop 1 invariant forall|id: AckId| old(self)@.dom().contains(id) && !self@.dom().contains(id) ==> old(self)@[id].dl().t() <= time.v()
//@ loop 1 invariant taken_ok(result@, old(self)@, time.v())
//@ loop 1 invariant forall|i: int| 0 <= i < result.len() ==> !self@.dom().contains(#[trigger] result[i].id())
//@ loop 1 invariant result.len() + self@.dom().len() == old(self)@.dom().len()
//@ loop 1 ensures self.expirations@.len() == 0
//@ loop 1 decreases self.expirations@.len()
//@ proof-before /^\s*result\s*$/ { self.expirations@.lemma_len0_is_empty(); }
//@end

//@fn src/subscriptions/outstanding.rs OutstandingMessageTracker::remove tags=C02
//@ instantiate I=std::vec::IntoIter<AckId>
//@ ret result
//@ requires old(self).wf()
//@ requires IteratorSpec::obeys_prophetic_iter_laws(&ack_ids), IteratorSpec::decrease(&ack_ids).is_some()
//@ ensures[C02] final(self).wf()
//@ # exactly the named live leases leave; unknown / stale / repeated ids are no-ops
//@ ensures[C02] forall|id: AckId| final(self)@.dom().contains(id) <==> (old(self)@.dom().contains(id) && !IteratorSpec::remaining(&ack_ids).contains(id))
//@ # frame: every lease that stays is unchanged
//@ ensures[C02] forall|id: AckId| final(self)@.dom().contains(id) ==> final(self)@[id] == old(self)@[id]
//@ ensures[C02] listed_ok(result@, old(self)@)
//@ ensures[C02] forall|i: int| 0 <= i < result.len() ==> IteratorSpec::remaining(&ack_ids).contains(#[trigger] result[i].id())
//@ ensures[C02] result.len() + final(self)@.dom().len() == old(self)@.dom().len()
//@ loop 1 iter it
//@ loop 1 invariant self.wf()
//@ loop 1 invariant it.seq() == IteratorSpec::remaining(&ack_ids)
//@ loop 1 invariant forall|id: AckId| self@.dom().contains(id) <==> (old(self)@.dom().contains(id) && !it.seq().take(it.index()).contains(id))
//@ loop 1 invariant forall|id: AckId| self@.dom().contains(id) ==> self@[id] == old(self)@[id]
//@ loop 1 invariant listed_ok(result@, old(self)@)
//@ loop 1 invariant forall|i: int| 0 <= i < result.len() ==> it.seq().take(it.index()).contains(#[trigger] result[i].id())
//@ loop 1 invariant result.len() + self@.dom().len() == old(self)@.dom().len()
//@ loop 1 proof-start { lemma_take_push(it.seq(), it.index()); }
//@ proof-before /^\s*result\s*$/ { let s = IteratorSpec::remaining(&ack_ids); assert(s.take(s.len() as int) =~= s); }
//@end

//@fn src/subscriptions/outstanding.rs OutstandingMessageTracker::modify tags=C05
//@ ret result
//@ requires old(self).wf()
//@ ensures[C05] final(self).wf()
//@ # complete functional spec: the modifications are applied one by one, in request order
//@ ensures[C05] (ModState { out: final(self)@, nacked: result@ }) == apply_mods(ModState { out: old(self)@, nacked: Seq::empty() }, modifications@)
//@ loop 1 iter it
//@ loop 1 invariant self.wf()
//@ loop 1 invariant it.seq() == modifications@
//@ loop 1 invariant self@ =~= apply_mods(ModState { out: old(self)@, nacked: Seq::empty() }, it.seq().take(it.index())).out
//@ loop 1 invariant result@ =~= apply_mods(ModState { out: old(self)@, nacked: Seq::empty() }, it.seq().take(it.index())).nacked
//@ loop 1 proof-start { lemma_apply_mods_step(ModState { out: old(self)@, nacked: Seq::empty() }, it.seq(), it.index()); }
//@ proof-before /^\s*result\s*$/ { assert(modifications@.take(modifications@.len() as int) =~= modifications@); }
//@end

//@fn src/subscriptions/outstanding.rs OutstandingMessageTracker::clear tags=C11
//@ requires old(self).wf()
//@ ensures[C11] final(self).wf(), final(self)@ == Leases::empty()
//@end

//@fn src/subscriptions/outstanding.rs OutstandingMessageTracker::len tags=C15
//@ ret r
//@ requires self.wf()
//@ ensures r == self@.dom().len()
//@end
}

} // verus!
fn main() {}
