//@bundle title subscription resource read-back: push configuration in (parse_push_config), subscription resource out (map_to_subscription_resource)
#![feature(allocator_api)]
#![allow(unused_imports, dead_code, unused_variables, unused_mut)]
use vstd::prelude::*;
use vstd::string::*;
use vstd::std_specs::hash::*;
use std::collections::HashMap;
use std::sync::Arc;
use std::time::Duration;

verus! {

broadcast use {vstd::std_specs::hash::group_hash_axioms, b6_ax::axiom_string_key_model, b6_ax::pat_str};

pub mod b6_ax {
    use super::*;
    // TRUSTED (A-STD): String's Hash/Eq obey vstd's hash-map key model (vstd ships this axiom for integers only)
    pub broadcast axiom fn axiom_string_key_model()
        ensures #[trigger] vstd::std_specs::hash::obeys_key_model::<String>();
    /// `str::trim` (Unicode white space removed at both ends)
    pub uninterp spec fn trim_ws(s: Seq<char>) -> Seq<char>;
    /// nanoseconds of a Duration
    pub uninterp spec fn dur_ns(d: Duration) -> nat;
    /// canonical text of a name (`Display`)
    pub uninterp spec fn display_sub(n: super::SubscriptionName) -> Seq<char>;
    pub uninterp spec fn display_topic(n: super::TopicName) -> Seq<char>;
    /// byte string a `Pattern` argument stands for (only `&str` is given a meaning)
    pub uninterp spec fn pat<P>(p: P) -> Seq<u8>;
    pub broadcast axiom fn pat_str(p: &str) ensures #[trigger] pat::<&str>(p) == p.spec_bytes();
}
pub use b6_ax::{trim_ws, dur_ns, display_sub, display_topic, pat};

// ---- TRUSTED (A-STR, A-STD): std contracts used below
pub open spec fn is_prefix(p: Seq<u8>, s: Seq<u8>) -> bool { p.len() <= s.len() && s.subrange(0, p.len() as int) == p }
pub assume_specification [str::trim] (s: &str) -> (r: &str)
    ensures r@ == trim_ws(s@);
#[verifier::allow(undeclared_external_trait)]
pub assume_specification<P> [str::starts_with] (s: &str, p: P) -> (r: bool)
    where P: std::str::pattern::Pattern
    ensures r == is_prefix(pat(p), s.spec_bytes());
pub assume_specification [Duration::from_secs] (s: u64) -> (r: Duration)
    ensures dur_ns(r) == s * 1_000_000_000;
pub assume_specification [Duration::as_secs] (d: &Duration) -> (r: u64)
    ensures r == dur_ns(*d) / 1_000_000_000;

/// the endpoint test of parse_push_config on the text of the trimmed endpoint
pub open spec fn http_like(endpoint: Seq<char>) -> bool {
    is_prefix("http".spec_bytes(), vstd::utf8::encode_utf8(endpoint))
}

// ---- TRUSTED (A-STUB): names reduced to opaque values with a canonical text; tonic::Status reduced to its code
pub struct SubscriptionName { pub x: u64 }
pub struct TopicName { pub x: u64 }
// the real names derive Clone (A-DERIVE: a clone is an equal value)
impl Clone for SubscriptionName { #[verifier::external_body] fn clone(&self) -> (r: Self) ensures r == *self { unimplemented!() } }
impl Clone for TopicName { #[verifier::external_body] fn clone(&self) -> (r: Self) ensures r == *self { unimplemented!() } }
impl SubscriptionName {
    #[verifier::external_body]
    pub fn subscription_id(&self) -> (r: &str) { unimplemented!() }
    // `Display for SubscriptionName` (src/subscriptions/subscription_name.rs); to_string comes from std's blanket impl
    #[verifier::external_body]
    pub fn to_string(&self) -> (r: String) ensures r@ == display_sub(*self) { unimplemented!() }
}
impl TopicName {
    #[verifier::external_body]
    pub fn topic_id(&self) -> (r: &str) { unimplemented!() }
    #[verifier::external_body]
    pub fn to_string(&self) -> (r: String) ensures r@ == display_topic(*self) { unimplemented!() }
}
//@include prelude/status.rs
//@include prelude/string_conv.rs

// ---- TRUSTED (A-STUB): field-exact mirrors of the prost-generated structs (all fields of the ones built here; a
// renamed or retyped field makes the assembled file fail to compile -> UNDECIDED)
pub mod pubsub_proto {
    use super::*;
    pub mod push_config {
        use super::*;
        pub struct OidcToken { pub service_account_email: String, pub audience: String }
        pub enum AuthenticationMethod { OidcToken(OidcToken) }
    }
    pub struct PushConfig {
        pub push_endpoint: String,
        pub attributes: HashMap<String, String>,
        pub authentication_method: Option<push_config::AuthenticationMethod>,
    }
    pub struct ProtoDuration { pub seconds: i64, pub nanos: i32 }
    pub struct Subscription {
        pub name: String,
        pub topic: String,
        pub push_config: Option<PushConfig>,
        pub bigquery_config: Option<u8>,
        pub ack_deadline_seconds: i32,
        pub retain_acked_messages: bool,
        pub message_retention_duration: Option<ProtoDuration>,
        pub labels: HashMap<String, String>,
        pub enable_message_ordering: bool,
        pub expiration_policy: Option<u8>,
        pub filter: String,
        pub dead_letter_policy: Option<u8>,
        pub retry_policy: Option<u8>,
        pub detached: bool,
        pub enable_exactly_once_delivery: bool,
        pub topic_message_retention_duration: Option<ProtoDuration>,
        pub state: i32,
    }
}

// ======================================================================================
// src/subscriptions/subscription.rs: the stored configuration (real items)
pub mod subscriptions {
    use super::*;
//@item src/subscriptions/subscription.rs struct SubscriptionInfo drop-derive=Debug,Clone
//@item src/subscriptions/subscription.rs struct PushConfig drop-derive=Debug,Clone
//@item src/subscriptions/subscription.rs struct PushConfigOidcToken drop-derive=Debug,Clone
    impl SubscriptionInfo {
//@fn src/subscriptions/subscription.rs SubscriptionInfo::new tags=C10
//@ ret r
//@ ensures[C10] r.name == name && r.ack_deadline == ack_deadline && r.push_config == push_config
//@end
    }
    impl PushConfig {
//@fn src/subscriptions/subscription.rs PushConfig::new tags=C10
//@ ret r
//@ ensures[C10] r.endpoint == endpoint && r.oidc_token == oidc_token && r.attributes == attributes
//@end
    }
    /// the live topic a subscription handle points to (Weak<Topic> in the real struct: dead once the topic is deleted)
    pub struct Topic { pub name: TopicName }
    pub struct WeakTopic { pub x: u64 }
    impl WeakTopic {
        pub uninterp spec fn target(&self) -> Option<Arc<Topic>>;
        // TRUSTED (A-STD): std::sync::Weak::upgrade
        #[verifier::external_body]
        pub fn upgrade(&self) -> (r: Option<Arc<Topic>>) ensures r == self.target() { unimplemented!() }
    }
    /// TRUSTED (A-STUB): mirror of the two fields of `Subscription` the mapping reads
    pub struct Subscription { pub name: SubscriptionName, pub topic: WeakTopic }
//@item src/subscriptions/errors.rs enum GetSubscriptionError drop-derive=thiserror::Error,Debug strip-attr=error
//@item src/subscriptions/errors.rs enum CreateSubscriptionError drop-derive=thiserror::Error,Debug strip-attr=error
    /// TRUSTED (A-STUB): the manager's lookup (its map operations are under contract in bundle B4)
    pub struct SubscriptionManager { pub x: u64 }
    impl SubscriptionManager {
        pub uninterp spec fn lookup(&self, name: SubscriptionName) -> Result<Arc<Subscription>, GetSubscriptionError>;
        #[verifier::external_body]
        pub fn get_subscription(&self, name: &SubscriptionName) -> (r: Result<Arc<Subscription>, GetSubscriptionError>)
            ensures r == self.lookup(*name)
        { unimplemented!() }
        /// outcome of `create_subscription(info, topic)` (same-project rule and State::create_subscription are under
        /// contract in bundle B4: Ok exactly when the name is absent and the projects agree)
        pub uninterp spec fn created(&self, info: SubscriptionInfo, topic: Arc<Topic>) -> Result<Arc<Subscription>, CreateSubscriptionError>;
        #[verifier::external_body]
        pub async fn create_subscription(&self, info: SubscriptionInfo, topic: Arc<Topic>) -> (r: Result<Arc<Subscription>, CreateSubscriptionError>)
            ensures r == self.created(info, topic)
        { unimplemented!() }
    }
}
pub mod topics {
    use super::*;
    pub use super::subscriptions::Topic;
//@item src/topics/errors.rs enum GetTopicError drop-derive=thiserror::Error,Debug strip-attr=error
//@item src/topics/errors.rs enum CreateTopicError drop-derive=thiserror::Error,Debug strip-attr=error
    pub struct TopicManager { pub x: u64 }
    impl TopicManager {
        pub uninterp spec fn lookup(&self, name: TopicName) -> Result<Arc<Topic>, GetTopicError>;
        #[verifier::external_body]
        pub fn get_topic(&self, name: &TopicName) -> (r: Result<Arc<Topic>, GetTopicError>)
            ensures r == self.lookup(*name)
        { unimplemented!() }
        /// outcome of `create_topic(name)` (State::create_topic is under contract in bundle B4: Ok exactly when absent)
        pub uninterp spec fn created(&self, name: TopicName) -> Result<Arc<Topic>, CreateTopicError>;
        #[verifier::external_body]
        pub fn create_topic(&self, name: TopicName) -> (r: Result<Arc<Topic>, CreateTopicError>)
            ensures r == self.created(name)
        { unimplemented!() }
    }
}

/// attribute map stored in a push configuration (None is the empty map)
pub open spec fn cfg_attrs(c: subscriptions::PushConfig) -> Map<String, String> {
    match c.attributes { Some(a) => a@, None => Map::empty() }
}

// ======================================================================================
// src/api/parser.rs
pub mod parser {
    use super::*;
    use super::pubsub_proto::push_config::AuthenticationMethod;
    use super::pubsub_proto::PushConfig as PushConfigProto;
    use super::subscriptions::{PushConfig, PushConfigOidcToken};
    broadcast use {vstd::std_specs::hash::group_hash_axioms, super::b6_ax::axiom_string_key_model, super::b6_ax::pat_str};

    /// what parse_push_config stores for a request's push_config
    pub open spec fn push_config_ok(p: PushConfigProto, c: PushConfig) -> bool {
        &&& c.endpoint@ == trim_ws(p.push_endpoint@)
        &&& cfg_attrs(c) == p.attributes@
        &&& (match p.authentication_method {
                None => c.oidc_token.is_none(),
                Some(AuthenticationMethod::OidcToken(t)) => c.oidc_token.is_some()
                    && c.oidc_token.unwrap().audience@ == t.audience@
                    && c.oidc_token.unwrap().service_account_email@ == t.service_account_email@,
            })
    }

//@fn src/api/parser.rs parse_push_config tags=C17
//@ ret r
//@ # C17: an endpoint that does not start with "http" (after trimming) is rejected with INVALID_ARGUMENT, nothing else is
//@ ensures[C17] r.is_err() <==> !http_like(trim_ws(push_config_proto.push_endpoint@))
//@ ensures[C17] r.is_err() ==> err_code(r) == Some(Code::InvalidArgument)
//@ # C10: the stored configuration is the request's (endpoint trimmed, attributes, oidc token)
//@ ensures[C10] r.is_ok() ==> push_config_ok(*push_config_proto, r.unwrap())
//@ closure 1 ret tok: PushConfigOidcToken
//@ closure 1 ensures (match $1 { AuthenticationMethod::OidcToken(t) => tok.audience@ == t.audience@ && tok.service_account_email@ == t.service_account_email@ })
//@ proof-before /^\s*Ok\(PushConfig::new\(endpoint, oidc_token, attributes\)\)/ { assert(oidc_token.is_some() == push_config_proto.authentication_method.is_some()); assert(endpoint@ == trim_ws(push_config_proto.push_endpoint@)); assert((match attributes { Some(a) => a@, None => Map::empty() }) == push_config_proto.attributes@); }
//@ proof-before /let attributes = match/ { if push_config_proto.attributes@.len() == 0 { push_config_proto.attributes@.dom().lemma_len0_is_empty(); assert(push_config_proto.attributes@ =~= Map::empty()); } }
//@end
}

// ---- TRUSTED (A-STUB): tonic's Request / Response wrappers, the tracing span and the prost request structs of the
// get / delete handlers; name parsers assumed here, proved in bundle B3
pub struct Request<T> { pub m: T }
impl<T> Request<T> { pub fn get_ref(&self) -> (r: &T) ensures *r == self.m { &self.m } }
pub struct Response<T> { pub m: T }
impl<T> Response<T> { pub fn new(m: T) -> (r: Self) ensures r.m == m { Response { m } } }
pub struct ActivitySpan { pub x: u8 }
impl ActivitySpan { pub fn start() -> Self { ActivitySpan { x: 0 } } }
pub struct GetSubscriptionRequest { pub subscription: String }
pub struct DeleteSubscriptionRequest { pub subscription: String }
pub struct GetTopicRequest { pub topic: String }
pub struct DeleteTopicRequest { pub topic: String }
pub mod name_glue {
    use super::*;
    pub uninterp spec fn parsed_sub(s: Seq<char>) -> Option<SubscriptionName>;
    pub uninterp spec fn parsed_topic(s: Seq<char>) -> Option<TopicName>;
    /// what `Subscription::get_info` answers: the configuration stored at creation (SubscriptionActor, bundle B1 / B4)
    pub uninterp spec fn stored_info(s: subscriptions::Subscription, i: subscriptions::SubscriptionInfo) -> bool;
    /// a `delete()` call on the handle was answered OK (the actor's delete is under contract in bundle B1 / B4)
    pub uninterp spec fn sub_deleted(s: subscriptions::Subscription) -> bool;
    pub uninterp spec fn topic_deleted(t: subscriptions::Topic) -> bool;
}
pub use name_glue::{parsed_sub, parsed_topic, stored_info, sub_deleted, topic_deleted};
pub enum GetInfoError { Closed }
pub enum DeleteError { Closed }
impl subscriptions::Subscription {
    // TRUSTED (A-GLUE): handle methods forward to the subscription actor
    #[verifier::external_body]
    pub async fn get_info(&self) -> (r: Result<subscriptions::SubscriptionInfo, GetInfoError>)
        ensures (match r { Ok(i) => stored_info(*self, i), Err(_) => true })
    { unimplemented!() }
    #[verifier::external_body]
    pub async fn delete(&self) -> (r: Result<(), DeleteError>)
        ensures r.is_ok() ==> sub_deleted(*self)
    { unimplemented!() }
}
impl subscriptions::Topic {
    #[verifier::external_body]
    pub async fn delete(&self) -> (r: Result<(), DeleteError>)
        ensures r.is_ok() ==> topic_deleted(*self)
    { unimplemented!() }
}

// ======================================================================================
// src/api/subscriber.rs: stored configuration -> Subscription resource (GetSubscription, ListSubscriptions, Create reply)
pub mod subscriber {
    use super::*;
    use super::pubsub_proto::push_config::{AuthenticationMethod, OidcToken};
    use super::pubsub_proto::{PushConfig, Subscription};
    use super::subscriptions::SubscriptionInfo;
    broadcast use {vstd::std_specs::hash::group_hash_axioms, super::b6_ax::axiom_string_key_model, super::string_conv_ax::to_string_ensures_for_string};

    /// the topic field of a subscription whose topic was deleted: the fixed marker (deltio's spelling, or the one of the
    /// Pub/Sub API; the property only says "reports its topic as deleted")
    pub open spec fn deleted_sentinel(s: Seq<char>) -> bool { s == "_deleted_topic_"@ || s == "_deleted-topic_"@ }

    /// the push_config of the resource reports the stored configuration
    pub open spec fn resource_push_ok(c: subscriptions::PushConfig, p: PushConfig) -> bool {
        &&& p.push_endpoint@ == c.endpoint@
        &&& p.attributes@ =~= cfg_attrs(c)
        &&& (match c.oidc_token {
                None => p.authentication_method.is_none(),
                Some(t) => match p.authentication_method {
                    Some(AuthenticationMethod::OidcToken(o)) => o.audience@ == t.audience@ && o.service_account_email@ == t.service_account_email@,
                    None => false,
                },
            })
    }

    use super::subscriptions::{GetSubscriptionError, SubscriptionManager};
    pub mod parser {
        use super::super::*;
        pub(crate) use super::super::parser::parse_push_config;
        #[verifier::external_body]
        pub fn parse_subscription_name(raw_value: &str) -> (r: Result<SubscriptionName, Status>)
            ensures (match parsed_sub(raw_value@) { Some(n) => r == Ok::<SubscriptionName, Status>(n), None => err_code(r) == Some(Code::InvalidArgument) })
        { unimplemented!() }
        #[verifier::external_body]
        pub fn parse_topic_name(raw_value: &str) -> (r: Result<TopicName, Status>)
            ensures (match parsed_topic(raw_value@) { Some(n) => r == Ok::<TopicName, Status>(n), None => err_code(r) == Some(Code::InvalidArgument) })
        { unimplemented!() }
    }
    // TRUSTED (A-STD): Option<Result<T, E>>::transpose
    pub assume_specification<T, E>[ Option::<Result<T, E>>::transpose ](o: Option<Result<T, E>>) -> (r: Result<Option<T>, E>)
        ensures r == (match o { None => Ok::<Option<T>, E>(None), Some(Ok(x)) => Ok::<Option<T>, E>(Some(x)), Some(Err(e)) => Err::<Option<T>, E>(e) });
    use super::topics::TopicManager;
    pub struct SubscriberService { pub subscription_manager: Arc<SubscriptionManager>, pub topic_manager: Arc<TopicManager> }
    /// what the CreateSubscription handler hands to the manager for a request
    pub open spec fn info_for(request: Subscription, info: SubscriptionInfo) -> bool {
        &&& Some(info.name) == parsed_sub(request.name@)
        &&& dur_ns(info.ack_deadline) == (if request.ack_deadline_seconds <= 10 { 10 } else { request.ack_deadline_seconds as int }) * 1_000_000_000
        &&& (match request.push_config { None => info.push_config.is_none(), Some(p) => info.push_config.is_some() && super::parser::push_config_ok(p, info.push_config.unwrap()) })
    }
//@fn src/api/subscriber.rs conflict tags=C10
//@ ret r
//@ ensures[C10,NEEDS-WITNESS] r.code == Code::FailedPrecondition
//@end
//@fn src/api/subscriber.rs subscription_not_found tags=C10
//@ ret r
//@ ensures[C10] r.code == Code::NotFound
//@end
//@fn src/api/subscriber.rs get_subscription tags=C10 keep-paths=1
//@ ret r
//@ # C10: pull, ack, modify and delete look the subscription up through this helper: an absent name is NOT_FOUND
//@ ensures[C10] (match subscription_manager.lookup(*subscription_name) { Ok(s) => r == Ok::<Arc<crate::subscriptions::Subscription>, Status>(s), Err(GetSubscriptionError::DoesNotExist) => err_code(r) == Some(Code::NotFound), Err(GetSubscriptionError::Closed) => err_code(r) == Some(Code::Internal) })
//@ closure 1 ret st: Status
//@ closure 1 ensures (match $1 { GetSubscriptionError::DoesNotExist => st.code == Code::NotFound, GetSubscriptionError::Closed => st.code == Code::Internal })
//@end

    use super::subscriptions::CreateSubscriptionError;
    use super::topics::GetTopicError;
    // status mapping of the CreateSubscription handler (arms of the two `map_err(|e| match e {..})` closures, lifted)
//@fn src/api/subscriber.rs SubscriberService::create_subscription tags=C10 name=create_subscription_topic_status head=match~e~{ tail=}
//@ region /GetTopicError::DoesNotExist => \{/ /GetTopicError::Closed => conflict\(\),/ as fn create_subscription_topic_status(e: GetTopicError, topic_name: &TopicName) -> (r: Status)
//@ # C10: CreateSubscription on an absent topic is NOT_FOUND
//@ ensures[C10] e is DoesNotExist ==> r.code == Code::NotFound
//@ ensures[C10,NEEDS-WITNESS] e is Closed ==> r.code == Code::FailedPrecondition
//@end
//@fn src/api/subscriber.rs SubscriberService::create_subscription tags=C10 name=create_subscription_status head=match~e~{ tail=}
//@ region /CreateSubscriptionError::AlreadyExists => Status::already_exists\(/ /CreateSubscriptionError::Closed => conflict\(\),/ as fn create_subscription_status(e: CreateSubscriptionError, subscription_name: &SubscriptionName) -> (r: Status)
//@ # C10: an existing name is ALREADY_EXISTS, a topic in another project INVALID_ARGUMENT
//@ ensures[C10] e is AlreadyExists ==> r.code == Code::AlreadyExists
//@ ensures[C10,C17] e is MustBeInSameProjectAsTopic ==> r.code == Code::InvalidArgument
//@ ensures[C10,NEEDS-WITNESS] e is Closed ==> r.code == Code::FailedPrecondition
//@end

//@fn src/api/subscriber.rs map_to_subscription_resource tags=C10 keep-paths=1
//@ ret r
//@ # C10: a subscription read back reports its name, its topic (C11: the sentinel once the topic is deleted), ...
//@ ensures[C10] r.name@ == display_sub(subscription.name)
//@ ensures[C11] (match subscription.topic.target() { Some(t) => r.topic@ == display_topic(t.name), None => deleted_sentinel(r.topic@) })
//@ # ... the effective ack deadline in whole seconds ...
//@ ensures[C10] dur_ns(info.ack_deadline) / 1_000_000_000 <= i32::MAX ==> r.ack_deadline_seconds == dur_ns(info.ack_deadline) / 1_000_000_000
//@ # ... and the push configuration it was created with
//@ ensures[C10] (match info.push_config { None => r.push_config.is_none(), Some(c) => r.push_config.is_some() && resource_push_ok(c, r.push_config.unwrap()) })
//@ closure 1 ret s: String
//@ closure 1 ensures s@ == display_topic($1.name)
//@ closure 2 ret s: String
//@ closure 2 ensures deleted_sentinel(s@)
//@ closure 3 ret p: PushConfig
//@ closure 3 ensures resource_push_ok(*$1, p)
//@ closure 4 ret m: AuthenticationMethod
//@ closure 4 ensures (match m { AuthenticationMethod::OidcToken(o) => o.audience@ == $1.audience@ && o.service_account_email@ == $1.service_account_email@ })
//@end

    impl SubscriberService {
//@fn src/api/subscriber.rs SubscriberService::create_subscription tags=C10 keep-paths=1
//@ ret r
//@ # C17: names that do not parse and unsupported push endpoints are INVALID_ARGUMENT
//@ ensures[C17] parsed_topic(request.m.topic@).is_none() || parsed_sub(request.m.name@).is_none() ==> err_code(r) == Some(Code::InvalidArgument)
//@ ensures[C17] (match request.m.push_config { Some(p) => !http_like(trim_ws(p.push_endpoint@)) ==> err_code(r) == Some(Code::InvalidArgument), None => true })
//@ # C10: OK means: the topic exists, and the manager created the subscription from exactly the request's name, the
//@ # effective ack deadline max(seconds, 10) and the request's push configuration; the answer is the resource of
//@ # that subscription with the configuration it stores
//@ ensures[C10] (match r { Ok(resp) => exists|info: SubscriptionInfo, t: Arc<crate::topics::Topic>, s: Arc<crate::subscriptions::Subscription>, stored: SubscriptionInfo| #![trigger self.subscription_manager.created(info, t), stored_info(*s, stored)] info_for(request.m, info) && parsed_topic(request.m.topic@).is_some() && self.topic_manager.lookup(parsed_topic(request.m.topic@).unwrap()) == Ok::<Arc<crate::topics::Topic>, GetTopicError>(t) && self.subscription_manager.created(info, t) == Ok::<Arc<crate::subscriptions::Subscription>, CreateSubscriptionError>(s) && stored_info(*s, stored) && resp.m.name@ == display_sub(s.name) && (match stored.push_config { None => resp.m.push_config.is_none(), Some(c) => resp.m.push_config.is_some() && resource_push_ok(c, resp.m.push_config.unwrap()) }), Err(_) => true })
//@ closure /GetTopicError::DoesNotExist/ ret st: Status
//@ closure /GetTopicError::DoesNotExist/ ensures (match $1 { GetTopicError::DoesNotExist => st.code == Code::NotFound, GetTopicError::Closed => st.code == Code::FailedPrecondition })
//@ closure /CreateSubscriptionError::AlreadyExists/ ret st: Status
//@ closure /CreateSubscriptionError::AlreadyExists/ ensures (match $1 { CreateSubscriptionError::AlreadyExists => st.code == Code::AlreadyExists, CreateSubscriptionError::MustBeInSameProjectAsTopic => st.code == Code::InvalidArgument, CreateSubscriptionError::Closed => st.code == Code::FailedPrecondition })
//@ closure /GetInfoError::Closed/ ret st: Status
//@ closure /GetInfoError::Closed/ ensures st.code == Code::FailedPrecondition
//@end
//@fn src/api/subscriber.rs SubscriberService::get_subscription tags=C10 keep-paths=1
//@ ret r
//@ # C17 / C10: a name that does not parse is INVALID_ARGUMENT, an absent name NOT_FOUND
//@ ensures[C17] parsed_sub(request.m.subscription@).is_none() ==> err_code(r) == Some(Code::InvalidArgument)
//@ ensures[C10] (match parsed_sub(request.m.subscription@) { Some(n) => (self.subscription_manager.lookup(n) matches Err(GetSubscriptionError::DoesNotExist)) ==> err_code(r) == Some(Code::NotFound), None => true })
//@ # C10: the answer is the resource of the subscription the name denotes: its name and the configuration it stores
//@ ensures[C10] (match r { Ok(resp) => exists|s: Arc<crate::subscriptions::Subscription>, info: SubscriptionInfo| #[trigger] stored_info(*s, info) && self.subscription_manager.lookup(parsed_sub(request.m.subscription@).unwrap()) == Ok::<Arc<crate::subscriptions::Subscription>, GetSubscriptionError>(s) && resp.m.name@ == display_sub(s.name) && (dur_ns(info.ack_deadline) / 1_000_000_000 <= i32::MAX ==> resp.m.ack_deadline_seconds == dur_ns(info.ack_deadline) / 1_000_000_000) && (match info.push_config { None => resp.m.push_config.is_none(), Some(c) => resp.m.push_config.is_some() && resource_push_ok(c, resp.m.push_config.unwrap()) }), Err(_) => true })
//@ closure /GetSubscriptionError::DoesNotExist/ ret st: Status
//@ closure /GetSubscriptionError::DoesNotExist/ ensures (match $1 { GetSubscriptionError::DoesNotExist => st.code == Code::NotFound, GetSubscriptionError::Closed => st.code == Code::FailedPrecondition })
//@ closure /GetInfoError::Closed/ ret st: Status
//@ closure /GetInfoError::Closed/ ensures st.code == Code::FailedPrecondition
//@end

//@fn src/api/subscriber.rs SubscriberService::delete_subscription tags=C10 keep-paths=1
//@ ret r
//@ ensures[C17] parsed_sub(request.m.subscription@).is_none() ==> err_code(r) == Some(Code::InvalidArgument)
//@ ensures[C10] (match parsed_sub(request.m.subscription@) { Some(n) => (self.subscription_manager.lookup(n) matches Err(GetSubscriptionError::DoesNotExist)) ==> err_code(r) == Some(Code::NotFound), None => true })
//@ # C11: OK means the subscription the name denotes was asked to delete itself and answered OK
//@ ensures[C11] r.is_ok() ==> exists|s: Arc<crate::subscriptions::Subscription>| #[trigger] sub_deleted(*s) && self.subscription_manager.lookup(parsed_sub(request.m.subscription@).unwrap()) == Ok::<Arc<crate::subscriptions::Subscription>, GetSubscriptionError>(s)
//@ closure /DeleteError::Closed/ ret st: Status
//@ closure /DeleteError::Closed/ ensures st.code == Code::FailedPrecondition
//@end
    }
}

// ======================================================================================
// src/api/publisher.rs: topic lookup used by publish / get / delete / list-subscriptions handlers
pub mod publisher {
    use super::*;
    use super::topics::{GetTopicError, TopicManager};
    pub struct PublisherService { pub topic_manager: Arc<TopicManager> }
//@fn src/api/publisher.rs conflict tags=C10
//@ ret r
//@ ensures[C10,NEEDS-WITNESS] r.code == Code::FailedPrecondition
//@end
//@fn src/api/publisher.rs topic_not_found tags=C10
//@ ret r
//@ ensures[C10] r.code == Code::NotFound
//@end
    use super::topics::CreateTopicError;
    // status mapping of the CreateTopic handler (arms of its `map_err(|e| match e {..})` closure, lifted)
//@fn src/api/publisher.rs PublisherService::create_topic tags=C10 name=create_topic_status head=match~e~{ tail=}
//@ region /CreateTopicError::AlreadyExists => Status::already_exists\(/ /CreateTopicError::Closed => conflict\(\),/ as fn create_topic_status(e: CreateTopicError) -> (r: Status)
//@ # C10: CreateTopic on an existing name is ALREADY_EXISTS
//@ ensures[C10] e is AlreadyExists ==> r.code == Code::AlreadyExists
//@ ensures[C10,NEEDS-WITNESS] e is Closed ==> r.code == Code::FailedPrecondition
//@end
    pub mod parser {
        use super::super::*;
        #[verifier::external_body]
        pub fn parse_topic_name(raw_value: &str) -> (r: Result<TopicName, Status>)
            ensures (match parsed_topic(raw_value@) { Some(n) => r == Ok::<TopicName, Status>(n), None => err_code(r) == Some(Code::InvalidArgument) })
        { unimplemented!() }
    }
    /// field-exact mirror of the prost `Topic` resource
    pub struct Topic {
        pub name: String,
        pub labels: HashMap<String, String>,
        pub message_storage_policy: Option<u8>,
        pub kms_key_name: String,
        pub schema_settings: Option<u8>,
        pub satisfies_pzs: bool,
        pub message_retention_duration: Option<pubsub_proto::ProtoDuration>,
    }
    impl PublisherService {
//@fn src/api/publisher.rs PublisherService::create_topic tags=C10 keep-paths=1
//@ ret r
//@ # C17: a name that does not parse is INVALID_ARGUMENT; C10: an existing name is ALREADY_EXISTS; OK echoes the canonical name
//@ ensures[C17] parsed_topic(request.m.name@).is_none() ==> err_code(r) == Some(Code::InvalidArgument)
//@ ensures[C10] (match parsed_topic(request.m.name@) { Some(n) => (self.topic_manager.created(n) matches Err(CreateTopicError::AlreadyExists)) ==> err_code(r) == Some(Code::AlreadyExists), None => true })
//@ ensures[C10] (match r { Ok(resp) => parsed_topic(request.m.name@).is_some() && self.topic_manager.created(parsed_topic(request.m.name@).unwrap()).is_ok() && resp.m.name@ == display_topic(parsed_topic(request.m.name@).unwrap()), Err(_) => true })
//@ closure /CreateTopicError::AlreadyExists/ ret st: Status
//@ closure /CreateTopicError::AlreadyExists/ ensures (match $1 { CreateTopicError::AlreadyExists => st.code == Code::AlreadyExists, CreateTopicError::Closed => st.code == Code::FailedPrecondition })
//@end
//@fn src/api/publisher.rs PublisherService::get_topic tags=C10 keep-paths=1
//@ ret r
//@ # C17 / C10: a name that does not parse is INVALID_ARGUMENT, an absent topic NOT_FOUND, an existing one is echoed
//@ ensures[C17] parsed_topic(request.m.topic@).is_none() ==> err_code(r) == Some(Code::InvalidArgument)
//@ ensures[C10] (match parsed_topic(request.m.topic@) { Some(n) => (self.topic_manager.lookup(n) matches Err(GetTopicError::DoesNotExist)) ==> err_code(r) == Some(Code::NotFound), None => true })
//@ ensures[C10] (match r { Ok(resp) => exists|t: Arc<crate::topics::Topic>| #![trigger t.name] self.topic_manager.lookup(parsed_topic(request.m.topic@).unwrap()) == Ok::<Arc<crate::topics::Topic>, GetTopicError>(t) && resp.m.name@ == display_topic(t.name), Err(_) => true })
//@end
//@fn src/api/publisher.rs PublisherService::delete_topic tags=C10 keep-paths=1
//@ ret r
//@ # C17 / C10: a name that does not parse is INVALID_ARGUMENT, an absent topic NOT_FOUND
//@ ensures[C17] parsed_topic(request.m.topic@).is_none() ==> err_code(r) == Some(Code::InvalidArgument)
//@ ensures[C10] (match parsed_topic(request.m.topic@) { Some(n) => (self.topic_manager.lookup(n) matches Err(GetTopicError::DoesNotExist)) ==> err_code(r) == Some(Code::NotFound), None => true })
//@ # C11: OK means the topic the name denotes was asked to delete itself and answered OK
//@ ensures[C11] r.is_ok() ==> exists|t: Arc<crate::topics::Topic>| #[trigger] topic_deleted(*t) && self.topic_manager.lookup(parsed_topic(request.m.topic@).unwrap()) == Ok::<Arc<crate::topics::Topic>, GetTopicError>(t)
//@ closure /DeleteError::Closed/ ret st: Status
//@ closure /DeleteError::Closed/ ensures st.code == Code::FailedPrecondition
//@end
//@fn src/api/publisher.rs PublisherService::get_topic_internal tags=C10 keep-paths=1
//@ ret r
//@ # C10: an absent topic name is NOT_FOUND
//@ ensures[C10] (match self.topic_manager.lookup(*topic_name) { Ok(t) => r == Ok::<Arc<crate::topics::Topic>, Status>(t), Err(GetTopicError::DoesNotExist) => err_code(r) == Some(Code::NotFound), Err(GetTopicError::Closed) => err_code(r) == Some(Code::Internal) })
//@ closure 1 ret st: Status
//@ closure 1 ensures (match $1 { GetTopicError::DoesNotExist => st.code == Code::NotFound, GetTopicError::Closed => st.code == Code::Internal })
//@end
    }
}

//@tags C10
/// C10 (read-back, composed): what CreateSubscription stores for a request's push_config is what Get/List report -
/// the endpoint trimmed, the same attributes, the same oidc token
pub proof fn lemma_push_config_roundtrip(p: pubsub_proto::PushConfig, c: subscriptions::PushConfig, q: pubsub_proto::PushConfig)
    requires parser::push_config_ok(p, c), subscriber::resource_push_ok(c, q)
    ensures
        q.push_endpoint@ == trim_ws(p.push_endpoint@),
        q.attributes@ == p.attributes@,
        (match p.authentication_method {
            None => q.authentication_method.is_none(),
            Some(pubsub_proto::push_config::AuthenticationMethod::OidcToken(t)) => match q.authentication_method {
                Some(pubsub_proto::push_config::AuthenticationMethod::OidcToken(o)) => o.audience@ == t.audience@ && o.service_account_email@ == t.service_account_email@,
                None => false,
            },
        }),
{
}

/// C10 / C04 (read-back of the effective ack deadline): the handler stores max(seconds, 10) s (region `ack_deadline_region`
/// of bundle B2) and the resource reports whole seconds of the stored duration: for every i32 the reported value is
/// max(seconds, 10)
pub proof fn lemma_ack_deadline_roundtrip(seconds: i32, stored: Duration, reported: i32)
    requires
        dur_ns(stored) == (if seconds <= 10 { 10 } else { seconds as int }) * 1_000_000_000,
        dur_ns(stored) / 1_000_000_000 <= i32::MAX ==> reported == dur_ns(stored) / 1_000_000_000,
    ensures reported == (if seconds <= 10 { 10 } else { seconds as int })
{
}
//@tags

} // verus!
fn main() {}
