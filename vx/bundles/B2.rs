//@bundle title request parsing and pagination: parser.rs, paging, page tokens, numeric conversions
#![feature(slice_index_methods)]
#![allow(unused_imports, dead_code, unused_variables, unused_mut)]
use vstd::prelude::*;
use vstd::string::*;
use vstd::std_specs::cmp::*;
use std::cmp::Ordering;
use std::time::Duration;
use std::collections::HashMap;
use std::sync::Arc;

verus! {

//@include prelude/status.rs

//@include prelude/instant.rs

// ======================================================================================
// src/paging/mod.rs
//@item src/paging/mod.rs struct Paging

/// C13: effective page size: the requested size, 20 if it is zero, at most 1000
pub open spec fn norm_size(size: int) -> int {
    if size == 0 { 20 } else if size > 1000 { 1000 } else { size }
}

impl Paging {
    pub closed spec fn sz(&self) -> int { self.size as int }
    pub closed spec fn off(&self) -> Option<usize> { self.offset }

//@fn src/paging/mod.rs Paging::new tags=C13
//@ ret r
//@ ensures[C13] r.sz() == norm_size(size as int), r.off() == offset
//@end

//@fn src/paging/mod.rs Paging::size tags=C13
//@ ret r
//@ ensures[C13] r == (if self.sz() < 10_000 { self.sz() } else { 10_000 })
//@end

//@fn src/paging/mod.rs Paging::offset tags=C13
//@ ret r
//@ ensures r == self.off()
//@end

//@fn src/paging/mod.rs Paging::to_skip tags=C13
//@ ret r
//@ ensures[C13] r == (match self.off() { Some(o) => o, None => 0usize })
//@end

//@fn src/paging/mod.rs Paging::next_page tags=C13
//@ ret r
//@ ensures[C13] r.sz() == self.sz(), r.off() == new_offset
//@end

//@fn src/paging/mod.rs Paging::next_page_from_slice_result tags=C13
//@ ret r
//@ # no overflow: discharged at the call sites from  len > 0 ==> skip < number of items
//@ requires (match self.off() { Some(o) => o as int, None => 0 }) + result@.len() <= usize::MAX
//@ ensures[C13] r.sz() == self.sz()
//@ # next offset = offset + page length, none when the page is empty
//@ ensures[C13] r.off() == (if result@.len() > 0 { Some(((match self.off() { Some(o) => o as int, None => 0 }) + result@.len()) as usize) } else { None })
//@end
}

// ======================================================================================
// src/api/page_token.rs
pub mod tok_ax {
    use super::*;
    /// the token string issued for an offset
    pub uninterp spec fn tok(v: usize) -> Seq<char>;
    // TRUSTED (A-LIB): base64(to_ne_bytes(v)) is injective in v and never the empty string
    pub broadcast axiom fn tok_injective(a: usize, b: usize)
        ensures #[trigger] tok(a) == #[trigger] tok(b) ==> a == b;
    pub broadcast axiom fn tok_nonempty(a: usize)
        ensures #[trigger] tok(a).len() > 0;
}
pub use tok_ax::tok;
broadcast use {tok_ax::tok_injective, tok_ax::tok_nonempty, collect_ax::collect_result, vstd::std_specs::iter::group_iter_axioms};

//@item src/api/page_token.rs struct PageToken
impl PageToken {
    pub closed spec fn v(&self) -> usize { self.value }

//@fn src/api/page_token.rs PageToken::new tags=C13
//@ ret r
//@ ensures r.v() == value
//@end

    // TRUSTED (A-LIB, A-STD): encode / try_decode are base64 + to/from_ne_bytes + Vec<u8> -> [u8; 8]; Verus cannot
    // give `usize::to_ne_bytes` a specification (const-generic array length) and base64 is an external crate.
    // Assumed contract: decode inverts encode; any other string decodes to None or to an arbitrary offset.
    // Cross-checked at run time by the replay crate (round trip over boundary and random offsets).
//@fn src/api/page_token.rs PageToken::encode tags=C13 stub-body=1
//@ attr #[verifier::external_body]
//@ ret r
//@ ensures[C13] r@ == tok(self.v())
//@end

//@fn src/api/page_token.rs PageToken::try_decode tags=C13 stub-body=1
//@ attr #[verifier::external_body]
//@ ret r
//@ ensures[C13] forall|v: usize| encoded@ == tok(v) ==> r.is_some() && r.unwrap().v() == v
//@end
}
// impl From<PageToken> for usize  (src/api/page_token.rs:30) -- value.value; TRUSTED mirror of a 1-line impl
impl vstd::std_specs::convert::FromSpecImpl<PageToken> for usize {
    open spec fn obeys_from_spec() -> bool { true }
    open spec fn from_spec(v: PageToken) -> usize { v.v() }
}
impl From<PageToken> for usize {
    fn from(value: PageToken) -> (r: usize) { value.value }
}

// ======================================================================================
// src/api/parser.rs
//@fn src/api/parser.rs parse_deadline_extension_duration tags=C05
//@ ret r
//@ # C05 classes over all i32: <0 error, 0 nack, 1..599 that many seconds, >=600 capped
//@ ensures[C05,C17] raw_value < 0 ==> r.is_err() && err_code(r) == Some(Code::InvalidArgument)
//@ ensures[C05] raw_value == 0 ==> r.is_ok() && r.unwrap().is_none()
//@ ensures[C05] 0 < raw_value < 600 ==> r.is_ok() && r.unwrap().is_some() && dur_ns(r.unwrap().unwrap()) == raw_value * 1_000_000_000
//@ ensures[C05] raw_value >= 600 ==> r.is_ok() && r.unwrap().is_some() && dur_ns(r.unwrap().unwrap()) == 600 * 1_000_000_000
//@end

//@fn src/api/parser.rs parse_page_token tags=C13
//@ ret r
//@ ensures[C13] raw_value@.len() == 0 ==> r.is_ok() && r.unwrap().is_none()
//@ # an issued token decodes to its offset
//@ ensures[C13] forall|v: usize| raw_value@ == tok(v) ==> r.is_ok() && r.unwrap().is_some() && r.unwrap().unwrap().v() == v
//@ # anything else: INVALID_ARGUMENT or some offset (any decodable token yields a page)
//@ ensures[C13,C17] r.is_err() ==> err_code(r) == Some(Code::InvalidArgument)
//@ ensures[C13] r.is_ok() && raw_value@.len() > 0 ==> r.unwrap().is_some()
//@ closure 1 ret e: Status
//@ closure 1 ensures e.code == Code::InvalidArgument
//@end

//@fn src/api/parser.rs parse_paging tags=C13
//@ ret r
//@ # negative page size is rejected
//@ ensures[C13,C17] size < 0 ==> r.is_err()
//@ ensures[C13,C17] r.is_err() ==> err_code(r) == Some(Code::InvalidArgument)
//@ ensures[C13] r.is_ok() ==> size >= 0 && r.unwrap().sz() == norm_size(size as int)
//@ ensures[C13] r.is_ok() && token@.len() == 0 ==> r.unwrap().off().is_none()
//@ ensures[C13] forall|v: usize| size >= 0 && token@ == tok(v) ==> r.is_ok() && r.unwrap().off() == Some(v)
//@ closure 1 ret e: Status
//@ closure 1 ensures e.code == Code::InvalidArgument
//@ closure 2 ret o: usize
//@ closure 2 ensures o == $1.v()
//@end

// ======================================================================================
// src/subscriptions/ack_id.rs (parsing half) and the ack-id / project-id parsers of src/api/parser.rs
//@item src/subscriptions/ack_id.rs struct AckId drop-derive=PartialOrd,Ord,Hash
//@item src/subscriptions/ack_id.rs enum AckIdParseError drop-derive=thiserror::Error strip-attr=error
pub mod parse_ax {
    use super::*;
    /// TRUSTED (A-STD): `str::parse::<F>` is a total function of the string (for u64: the decimal grammar of std)
    pub uninterp spec fn parsed<F>(s: Seq<char>) -> Option<F>;
    // TRUSTED (A-STD): declaration of std's FromStr trait and ParseIntError type, and the contract of `str::parse`:
    // total, Ok exactly on the strings of `parsed`, with that value. AckId::parse itself is verified against it.
    #[verifier::external_trait_specification]
    pub trait ExFromStr: Sized {
        type ExternalTraitSpecificationFor: core::str::FromStr;
        type Err;
        fn from_str(s: &str) -> Result<Self, Self::Err>;
    }
    #[verifier::external_type_specification]
    #[verifier::external_body]
    pub struct ExParseIntError(core::num::ParseIntError);
    pub assume_specification<F: core::str::FromStr>[ str::parse::<F> ](s: &str) -> (r: Result<F, F::Err>)
        ensures r.is_ok() <==> parsed::<F>(s@).is_some(),
                r.is_ok() ==> (match r { Ok(x) => Some(x), Err(_) => None }) == parsed::<F>(s@);
}
pub use parse_ax::parsed;
impl AckId {
    pub closed spec fn v(&self) -> int { self.value as int }
//@fn src/subscriptions/ack_id.rs AckId::new tags=C17
//@ ret r
//@ ensures r.v() == value
//@end

    // AckId::parse: the real body (`parse::<u64>().map(Self::new).map_err(..)`) is verified against the assumed
    // contract of `str::parse` above (round 10: no longer an assumed contract of its own).
//@fn src/subscriptions/ack_id.rs AckId::parse tags=C17
//@ ret r
//@ # C17: total; malformed exactly when std's u64 parser rejects the string; the value is std's
//@ ensures[C17] r.is_ok() <==> parsed::<u64>(raw_value@).is_some()
//@ ensures[C17] r.is_ok() ==> r.unwrap().v() == parsed::<u64>(raw_value@).unwrap()
//@end
}

//@fn src/api/parser.rs parse_ack_id tags=C17
//@ ret r
//@ ensures[C17] r.is_ok() <==> parsed::<u64>(raw_value@).is_some()
//@ ensures[C17] r.is_ok() ==> r.unwrap().v() == parsed::<u64>(raw_value@).unwrap()
//@ ensures[C17] r.is_err() ==> err_code(r) == Some(Code::InvalidArgument)
//@ closure 1 ret e: Status
//@ closure 1 ensures e.code == Code::InvalidArgument
//@end

// ======================================================================================
// per-pair body of parse_deadline_modifications (the closure passed to `.map`), lifted as a region
//@item src/subscriptions/pulled_message.rs struct AckDeadline drop-derive=Hash,PartialEq,Eq,PartialOrd,Ord
//@hoisted src/subscriptions/pulled_message.rs AckDeadline::new
pub open spec fn grid_ns() -> int { 1_000_000_000 }
impl AckDeadline {
    pub closed spec fn t(&self) -> int { self.time.v() }
    // proved in bundle B1 against the same contract; repeated here so that the caller below is checked against it
//@fn src/subscriptions/pulled_message.rs AckDeadline::new tags=C05
//@ ret r
//@ requires time.v() >= epoch().v()
//@ requires time.v() - epoch().v() < 0x4000_0000_0000_0000
//@ requires epoch().v() + (time.v() - epoch().v()) + grid_ns() <= instant_max()
//@ ensures[C05] r.t() >= time.v()
//@ ensures[C05] r.t() < time.v() + grid_ns()
//@end
}
//@item src/subscriptions/deadline_modification.rs struct DeadlineModification
impl DeadlineModification {
//@fn src/subscriptions/deadline_modification.rs DeadlineModification::new tags=C05
//@ ret r
//@ ensures r.ack_id == ack_id, r.new_deadline == Some(new_deadline)
//@end
//@fn src/subscriptions/deadline_modification.rs DeadlineModification::nack tags=C05
//@ ret r
//@ ensures r.ack_id == ack_id, r.new_deadline.is_none()
//@end
}
/// C05: effect of one (ack id, seconds) pair of a ModifyAckDeadline request issued at `now`
pub open spec fn mod_pair_ok(now: int, id: Seq<char>, secs: i32, r: Result<DeadlineModification, Status>) -> bool {
    if parsed::<u64>(id).is_none() || secs < 0 {
        err_code(r) == Some(Code::InvalidArgument)
    } else {
        &&& r.is_ok()
        &&& r.unwrap().ack_id.v() == parsed::<u64>(id).unwrap()
        &&& secs == 0 ==> r.unwrap().new_deadline.is_none()
        &&& secs > 0 ==> r.unwrap().new_deadline.is_some() && {
                let d = (if secs >= 600 { 600 } else { secs as int }) * 1_000_000_000;
                now + d <= r.unwrap().new_deadline.unwrap().t() < now + d + grid_ns() }
    }
}
//@fn src/api/parser.rs parse_deadline_modifications tags=C05 name=deadline_mod_pair
//@ region /let ack_id = parse_ack_id\(ack_id\)\?;/ /^\s*Ok\(modification\)\s*$/ as fn deadline_mod_pair(now: Instant, ack_id: &String, seconds: &i32) -> (r: Result<DeadlineModification, Status>)
//@ requires epoch().v() <= now.v() <= now_max()
//@ ensures[C05] mod_pair_ok(now.v(), ack_id@, *seconds, r)
//@end

// the whole function: zip / map / collect::<Result<Vec<_>, Status>> plumbing around the per-pair body (all-or-nothing)
pub mod collect_ax {
    use super::*;
    /// what `collect::<Result<Vec<T>, E>>()` makes of the items an iterator yields: all of them unwrapped, in order, or
    /// the first error
    pub open spec fn all_or_nothing<T, E>(items: Seq<Result<T, E>>, s: Result<Vec<T>, E>) -> bool {
        match s {
            Ok(v) => v@.len() == items.len() && forall|i: int| #![trigger v@[i]] #![trigger items[i]] 0 <= i < items.len() ==> items[i] == Ok::<T, E>(v@[i]),
            Err(e) => exists|i: int| 0 <= i < items.len() && #[trigger] items[i] == Err::<T, E>(e),
        }
    }
    // TRUSTED (A-STD): `impl FromIterator<Result<A, E>> for Result<V, E>` of std (vstd specifies `collect` through
    // `FromIteratorSpec::from_iter_ensures`, which it defines for Vec only)
    pub broadcast axiom fn collect_result<T, E>(items: Seq<Result<T, E>>, s: Result<Vec<T>, E>)
        ensures #[trigger] <Result<Vec<T>, E> as vstd::std_specs::iter::FromIteratorSpec<Result<T, E>>>::from_iter_ensures(items, s) ==> all_or_nothing(items, s);
}
pub use collect_ax::all_or_nothing;
/// one modification per (ack id, seconds) pair, in order, each the per-pair result at `now` (lists of equal length)
pub open spec fn stream_mods_ok(now: int, ids: Seq<String>, secs: Seq<i32>, mods: Seq<DeadlineModification>) -> bool {
    &&& mods.len() == ids.len()
    &&& ids.len() == secs.len()
    &&& epoch().v() <= now <= now_max()
    &&& forall|i: int| #![trigger mods[i]] 0 <= i < mods.len() ==> mod_pair_ok(now, ids[i]@, secs[i], Ok::<DeadlineModification, Status>(mods[i]))
}
/// every (ack id, seconds) pair of a request is well-formed
pub open spec fn pairs_ok(ids: Seq<String>, secs: Seq<i32>) -> bool {
    forall|i: int| #![trigger ids[i]] #![trigger secs[i]] 0 <= i < imin(ids.len() as int, secs.len() as int) ==> parsed::<u64>(ids[i]@).is_some() && secs[i] >= 0
}
//@fn src/api/parser.rs parse_deadline_modifications tags=C05
//@ ret r
//@ requires epoch().v() <= now.v() <= now_max()
//@ # C05: one modification per (ack id, seconds) pair, in request order, each as the per-pair rule says ...
//@ ensures[C05] (match r { Ok(v) => v@.len() == imin(ack_ids@.len() as int, modify_deadline_seconds@.len() as int) && forall|i: int| #![trigger ack_ids@[i]] #![trigger v@[i]] 0 <= i < v@.len() ==> mod_pair_ok(now.v(), ack_ids@[i]@, modify_deadline_seconds@[i], Ok::<DeadlineModification, Status>(v@[i])), Err(_) => true })
//@ # ... all-or-nothing: the request yields modifications only if every pair is well-formed; one malformed ack id or
//@ # negative seconds value fails the whole request, and the only failure is INVALID_ARGUMENT
//@ ensures[C05,C17] (match r { Ok(v) => forall|i: int| #![trigger v@[i]] 0 <= i < v@.len() ==> mod_pair_ok(now.v(), ack_ids@[i]@, modify_deadline_seconds@[i], Ok::<DeadlineModification, Status>(v@[i])) && parsed::<u64>(ack_ids@[i]@).is_some() && modify_deadline_seconds@[i] >= 0, Err(_) => true })
//@ ensures[C05,C17] r.is_err() ==> err_code(r) == Some(Code::InvalidArgument)
//@ # (the same, packaged for callers that pass lists of equal length)
//@ ensures[C05] (match r { Ok(v) => ack_ids@.len() == modify_deadline_seconds@.len() ==> stream_mods_ok(now.v(), ack_ids@, modify_deadline_seconds@, v@), Err(_) => true })
//@ # ... and a request whose pairs are all well-formed is not rejected
//@ ensures[C05] pairs_ok(ack_ids@, modify_deadline_seconds@) ==> r.is_ok()
//@ closure 1 ret m: Result<DeadlineModification, Status>
//@ closure 1 ensures mod_pair_ok(now.v(), $1.0@, *$1.1, m)
//@end

// ======================================================================================
// src/api/subscriber.rs: the unary Acknowledge and ModifyAckDeadline handlers (async fn, whole bodies)
pub mod handlers {
    use super::*;
    broadcast use {tok_ax::tok_injective, tok_ax::tok_nonempty, collect_ax::collect_result, vstd::std_specs::iter::group_iter_axioms};
//@item src/subscriptions/errors.rs enum AcknowledgeMessagesError drop-derive=thiserror::Error strip-attr=error
//@item src/subscriptions/errors.rs enum ModifyDeadlineError drop-derive=thiserror::Error strip-attr=error
//@item src/subscriptions/errors.rs enum GetSubscriptionError drop-derive=thiserror::Error strip-attr=error
    // ---- TRUSTED (A-STUB): tonic's Request / Response wrappers, the tracing span, the prost request structs
    pub struct Request<T> { pub m: T }
    impl<T> Request<T> { pub fn get_ref(&self) -> (r: &T) ensures *r == self.m { &self.m } }
    pub struct Response<T> { pub m: T }
    impl<T> Response<T> { pub fn new(m: T) -> (r: Self) ensures r.m == m { Response { m } } }
    pub struct ActivitySpan { pub x: u8 }
    impl ActivitySpan { pub fn start() -> Self { ActivitySpan { x: 0 } } }
    pub struct AcknowledgeRequest { pub subscription: String, pub ack_ids: Vec<String> }
    pub struct ModifyAckDeadlineRequest { pub subscription: String, pub ack_ids: Vec<String>, pub ack_deadline_seconds: i32 }
    pub struct SubscriptionName { pub x: u64 }
    pub struct Subscription { pub x: u64 }
    pub struct SubscriptionManager { pub x: u64 }
    pub mod glue {
        use super::*;
        /// the subscription name a string parses to (SubscriptionName::try_parse, proved in bundle B3)
        pub uninterp spec fn parsed_name(s: Seq<char>) -> Option<SubscriptionName>;
        /// the manager's lookup (map operations proved in bundle B4, NOT_FOUND mapping in bundle B6)
        pub uninterp spec fn lookup(m: SubscriptionManager, name: SubscriptionName) -> Result<Arc<Subscription>, GetSubscriptionError>;
        /// one `acknowledge_messages(ids)` / `modify_ack_deadlines(mods)` call on the handle (handled by the actor, bundle B1)
        pub uninterp spec fn acked(s: Subscription, ids: Seq<AckId>) -> bool;
        pub uninterp spec fn modified(s: Subscription, mods: Seq<DeadlineModification>) -> bool;
    }
    pub use glue::{parsed_name, lookup, acked, modified};
    // ---- ListTopicSubscriptions: stand-ins for the topic side (A-STUB / A-GLUE)
    pub struct TopicName { pub x: u64 }
    pub struct TopicHandle { pub x: u64, pub name: TopicName }
    pub struct PublisherService { pub topic_manager: Arc<TopicManager> }
    pub struct ListTopicSubscriptionsRequest { pub topic: String, pub page_size: i32, pub page_token: String }
    pub struct ListTopicSubscriptionsResponse { pub subscriptions: Vec<String>, pub next_page_token: String }
    pub struct NamedSubscription { pub name: SubscriptionName }
    pub mod list_glue {
        use super::*;
        pub uninterp spec fn parsed_topic(s: Seq<char>) -> Option<TopicName>;
        pub uninterp spec fn topic_lookup(s: PublisherService, name: TopicName) -> Option<Arc<TopicHandle>>;
        /// `Topic::list_subscriptions(paging)` answered with this page (TopicActor::list_subscriptions, bundle B4)
        pub uninterp spec fn listed(t: TopicHandle, size: int, off: Option<usize>, names: Seq<Seq<char>>, next: Option<usize>) -> bool;
        pub uninterp spec fn display_sub(n: SubscriptionName) -> Seq<char>;
        pub uninterp spec fn display_topic(n: TopicName) -> Seq<char>;
        /// the project id a `projects/{id}` string parses to (parse_project_id, proved in bundle B3)
        pub uninterp spec fn parsed_project(s: Seq<char>) -> Option<Seq<char>>;
        pub uninterp spec fn boxed(b: Box<str>) -> Seq<char>;
        pub uninterp spec fn listed_topics(m: TopicManager, project: Seq<char>, size: int, off: Option<usize>, names: Seq<Seq<char>>, next: Option<usize>) -> bool;
    }
    pub use list_glue::{parsed_topic, topic_lookup, listed, display_sub, display_topic, parsed_project, listed_topics, boxed};
    // ---- ListTopics: manager stand-in, prost mirrors
    pub struct TopicManager { pub x: u64 }
    pub struct TopicsPage { pub topics: Vec<Arc<TopicHandle>>, pub offset: Option<usize> }
    pub struct ListTopicsRequest { pub project: String, pub page_size: i32, pub page_token: String }
    pub struct ListTopicsResponse { pub topics: Vec<Topic>, pub next_page_token: String }
    pub struct ProtoDuration { pub seconds: i64, pub nanos: i32 }
    /// field-exact mirror of the prost `Topic` resource
    pub struct Topic {
        pub name: String,
        pub labels: HashMap<String, String>,
        pub message_storage_policy: Option<u8>,
        pub kms_key_name: String,
        pub schema_settings: Option<u8>,
        pub satisfies_pzs: bool,
        pub message_retention_duration: Option<ProtoDuration>,
    }
    impl TopicName {
        #[verifier::external_body]
        pub fn to_string(&self) -> (r: String) ensures r@ == display_topic(*self) { unimplemented!() }
    }
    pub open spec fn topic_names(p: TopicsPage) -> Seq<Seq<char>> { Seq::new(p.topics@.len(), |i: int| display_topic(p.topics@[i].name)) }
    impl TopicManager {
        /// TRUSTED (A-STUB): TopicManager::list_topics (its pagination tail is under contract in bundle B4)
        #[verifier::external_body]
        pub fn list_topics(&self, project_id: Box<str>, paging: Paging) -> (r: Result<TopicsPage, ListTopicsError>)
            ensures (match r { Ok(p) => listed_topics(*self, boxed(project_id), paging.sz(), paging.off(), topic_names(p), p.offset), Err(_) => true })
        { unimplemented!() }
    }
    // TRUSTED (A-STD): Option::filter keeps the value exactly when the predicate says so
    pub assume_specification<T, P: FnOnce(&T) -> bool>[ Option::<T>::filter ](o: Option<T>, p: P) -> (r: Option<T>)
        requires o.is_some() ==> call_requires(p, (&o.unwrap(),))
        ensures (match o { None => r.is_none(), Some(x) => (r == Some(x) && call_ensures(p, (&x,), true)) || (r.is_none() && call_ensures(p, (&x,), false)) });
    // TRUSTED (A-STR): String -> Box<str> keeps the text
    pub assume_specification [<Box<str> as From<String>>::from] (s: String) -> (r: Box<str>)
        ensures boxed(r) == s@;
    impl SubscriptionName {
        #[verifier::external_body]
        pub fn to_string(&self) -> (r: String) ensures r@ == display_sub(*self) { unimplemented!() }
    }
    pub struct SubscriptionsPage { pub subscriptions: Vec<Arc<NamedSubscription>>, pub offset: Option<usize> }
    /// the names on a page, as text
    pub open spec fn page_names(p: SubscriptionsPage) -> Seq<Seq<char>> { Seq::new(p.subscriptions@.len(), |i: int| display_sub(p.subscriptions@[i].name)) }
    impl TopicHandle {
        #[verifier::external_body]
        pub async fn list_subscriptions(&self, paging: Paging) -> (r: Result<SubscriptionsPage, ListSubscriptionsError>)
            ensures (match r { Ok(p) => listed(*self, paging.sz(), paging.off(), page_names(p), p.offset), Err(_) => true })
        { unimplemented!() }
    }
    impl PublisherService {
        // assumed here, proved in bundle B6
        #[verifier::external_body]
        pub async fn get_topic_internal(&self, topic_name: &TopicName) -> (r: Result<Arc<TopicHandle>, Status>)
            ensures (match topic_lookup(*self, *topic_name) { Some(t) => r == Ok::<Arc<TopicHandle>, Status>(t), None => err_code(r) == Some(Code::NotFound) || err_code(r) == Some(Code::Internal) })
        { unimplemented!() }
//@fn src/api/publisher.rs PublisherService::list_topics tags=C13
//@ ret r
//@ ensures[C13,C17] request.m.page_size < 0 || parsed_project(request.m.project@).is_none() ==> err_code(r) == Some(Code::InvalidArgument)
//@ # C13: the response is the page the manager answered for the request's project, the effective size and the token's
//@ # offset: the topic names in order, and a next_page_token exactly when a further offset was reported
//@ ensures[C13] (match r { Ok(resp) => exists|off: Option<usize>, next: Option<usize>, names: Seq<Seq<char>>| #![trigger listed_topics(*self.topic_manager, parsed_project(request.m.project@).unwrap(), norm_size(request.m.page_size as int), off, names, next)] listed_topics(*self.topic_manager, parsed_project(request.m.project@).unwrap(), norm_size(request.m.page_size as int), off, names, next) && names.len() == resp.m.topics@.len() && (forall|i: int| #![trigger names[i]] 0 <= i < names.len() ==> resp.m.topics@[i].name@ == names[i]) && (request.m.page_token@.len() == 0 ==> off.is_none()) && (forall|v: usize| request.m.page_token@ == tok(v) ==> off == Some(v)) && (match next { Some(o) => resp.m.next_page_token@ == tok(o), None => resp.m.next_page_token@.len() == 0 }), Err(_) => true })
//@ closure /ListTopicsError::Closed/ ret st: Status
//@ closure /ListTopicsError::Closed/ ensures st.code == Code::FailedPrecondition
//@ closure /name: \w+\.name\.to_string\(\)/ ret tp: Topic
//@ closure /name: \w+\.name\.to_string\(\)/ ensures tp.name@ == display_topic($1.name)
//@ closure /PageToken::new/ ret txt: String
//@ closure /PageToken::new/ ensures txt@ == tok($1)
//@end
//@fn src/api/publisher.rs PublisherService::list_topic_subscriptions tags=C13
//@ ret r
//@ # C13 / C17: a negative page size or an undecodable token is INVALID_ARGUMENT, as is a name that does not parse
//@ ensures[C13,C17] request.m.page_size < 0 || parsed_topic(request.m.topic@).is_none() ==> err_code(r) == Some(Code::InvalidArgument)
//@ # C13: the response is the page the topic answered for the effective size and the token's offset: its names in
//@ # order, and a next_page_token exactly when the topic reported a further offset (the token of that offset)
//@ ensures[C13] (match r { Ok(resp) => exists|t: Arc<TopicHandle>, off: Option<usize>, next: Option<usize>, names: Seq<Seq<char>>| #![trigger listed(*t, norm_size(request.m.page_size as int), off, names, next)] listed(*t, norm_size(request.m.page_size as int), off, names, next) && names.len() == resp.m.subscriptions@.len() && (forall|i: int| #![trigger names[i]] 0 <= i < names.len() ==> resp.m.subscriptions@[i]@ == names[i]) && (request.m.page_token@.len() == 0 ==> off.is_none()) && (forall|v: usize| request.m.page_token@ == tok(v) ==> off == Some(v)) && (match next { Some(o) => resp.m.next_page_token@ == tok(o), None => resp.m.next_page_token@.len() == 0 }), Err(_) => true })
//@ closure /ListSubscriptionsError::Closed/ ret st: Status
//@ closure /ListSubscriptionsError::Closed/ ensures st.code == Code::FailedPrecondition
//@ closure /\w+\.name\.to_string\(\)/ ret txt: String
//@ closure /\w+\.name\.to_string\(\)/ ensures txt@ == display_sub($1.name)
//@ closure /PageToken::new/ ret txt: String
//@ closure /PageToken::new/ ensures txt@ == tok($1)
//@end
    }
    /// the texts of a vector of strings
    pub open spec fn strs(v: Seq<String>) -> Seq<Seq<char>> { Seq::new(v.len(), |i: int| v[i]@) }
//@item src/subscriptions/errors.rs enum ListSubscriptionsError drop-derive=thiserror::Error strip-attr=error
//@item src/topics/errors.rs enum ListTopicsError drop-derive=thiserror::Error strip-attr=error
    pub mod parser {
        use super::*;
        pub(crate) use super::super::{parse_ack_id, parse_deadline_modifications, parse_paging};
        // assumed here, proved in bundle B3
        #[verifier::external_body]
        pub fn parse_project_id(raw_value: &str) -> (r: Result<String, Status>)
            ensures (match parsed_project(raw_value@) { Some(p) => r.is_ok() && r.unwrap()@ == p, None => err_code(r) == Some(Code::InvalidArgument) })
        { unimplemented!() }
        #[verifier::external_body]
        pub fn parse_topic_name(raw_value: &str) -> (r: Result<TopicName, Status>)
            ensures (match parsed_topic(raw_value@) { Some(n) => r == Ok::<TopicName, Status>(n), None => err_code(r) == Some(Code::InvalidArgument) })
        { unimplemented!() }
        // assumed here, proved in bundle B3: INVALID_ARGUMENT exactly when the name does not parse
        #[verifier::external_body]
        pub fn parse_subscription_name(raw_value: &str) -> (r: Result<SubscriptionName, Status>)
            ensures (match parsed_name(raw_value@) { Some(n) => r == Ok::<SubscriptionName, Status>(n), None => err_code(r) == Some(Code::InvalidArgument) })
        { unimplemented!() }
    }
    // assumed here, proved in bundle B6 against the same contract
    #[verifier::external_body]
    pub fn get_subscription(subscription_manager: &Arc<SubscriptionManager>, subscription_name: &SubscriptionName) -> (r: Result<Arc<Subscription>, Status>)
        ensures (match lookup(**subscription_manager, *subscription_name) { Ok(s) => r == Ok::<Arc<Subscription>, Status>(s), Err(GetSubscriptionError::DoesNotExist) => err_code(r) == Some(Code::NotFound), Err(GetSubscriptionError::Closed) => err_code(r) == Some(Code::Internal) })
    { unimplemented!() }
    impl Subscription {
        /// TRUSTED (A-GLUE): the handle forwards the request to the subscription actor and returns its reply
        #[verifier::external_body]
        pub async fn acknowledge_messages(&self, ack_ids: Vec<AckId>) -> (r: Result<(), AcknowledgeMessagesError>)
            ensures r.is_ok() ==> acked(*self, ack_ids@)
        { unimplemented!() }
        #[verifier::external_body]
        pub async fn modify_ack_deadlines(&self, deadline_modifications: Vec<DeadlineModification>) -> (r: Result<(), ModifyDeadlineError>)
            ensures r.is_ok() ==> modified(*self, deadline_modifications@)
        { unimplemented!() }
    }
    pub struct SubscriberService { pub subscription_manager: Arc<SubscriptionManager> }
    /// every ack id of the request is well-formed
    pub open spec fn ids_ok(ids: Seq<String>) -> bool { forall|i: int| #![trigger ids[i]] 0 <= i < ids.len() ==> parsed::<u64>(ids[i]@).is_some() }
    /// one modification per ack id, in order, each the per-pair result for the request's one seconds value at `now`
    pub open spec fn mods_ok(now: int, ids: Seq<String>, secs: i32, mods: Seq<DeadlineModification>) -> bool {
        &&& mods.len() == ids.len()
        &&& epoch().v() <= now <= now_max()
        &&& forall|i: int| #![trigger mods[i]] 0 <= i < mods.len() ==> mod_pair_ok(now, ids[i]@, secs, Ok::<DeadlineModification, Status>(mods[i]))
    }
    pub struct StreamingPullResponse { pub x: u8 }
    /// the four consistency rules of a StreamingPull control message
    pub open spec fn control_consistent(request: StreamingPullRequest) -> bool {
        !(request.subscription@.len() > 0 || request.max_outstanding_bytes > 0 || request.max_outstanding_messages > 0 || request.modify_deadline_seconds@.len() != request.modify_deadline_ack_ids@.len())
    }
//@fn src/api/subscriber.rs handle_streaming_pull_request tags=C05
//@ ret r
//@ # C17: an inconsistent control message, a malformed ack id (in either list) or a negative seconds value: INVALID_ARGUMENT
//@ ensures[C17] !control_consistent(request) ==> err_code(r) == Some(Code::InvalidArgument)
//@ ensures[C17,C05] !ids_ok(request.ack_ids@) || !pairs_ok(request.modify_deadline_ack_ids@, request.modify_deadline_seconds@) ==> err_code(r) == Some(Code::InvalidArgument)
//@ # C02: OK means the subscription was handed exactly the ack ids of the message, in order ...
//@ # (stated with the ids in request order - more than C02 needs, which is the same set of ids: NEEDS-WITNESS, see DESIGN §13)
//@ ensures[C02,NEEDS-WITNESS] r.is_ok() && request.ack_ids@.len() > 0 ==> exists|ids: Seq<AckId>| #[trigger] acked(*subscription, ids) && ids.len() == request.ack_ids@.len() && forall|i: int| #![trigger ids[i]] 0 <= i < ids.len() ==> ids[i].v() == parsed::<u64>(request.ack_ids@[i]@).unwrap()
//@ # C05: ... and one modification per (ack id, seconds) pair, in order, each as the per-pair rule says
//@ ensures[C05] r.is_ok() && request.modify_deadline_ack_ids@.len() > 0 ==> exists|mods: Seq<DeadlineModification>, now: int| #![trigger modified(*subscription, mods), stream_mods_ok(now, request.modify_deadline_ack_ids@, request.modify_deadline_seconds@, mods)] modified(*subscription, mods) && stream_mods_ok(now, request.modify_deadline_ack_ids@, request.modify_deadline_seconds@, mods)
//@ closure /parser::parse_ack_id/ ret a: Result<AckId, Status>
//@ closure /parser::parse_ack_id/ ensures (match a { Ok(x) => parsed::<u64>($1@).is_some() && x.v() == parsed::<u64>($1@).unwrap(), Err(e) => parsed::<u64>($1@).is_none() && e.code == Code::InvalidArgument })
//@ closure /AcknowledgeMessagesError::Closed/ ret st: Status
//@ closure /AcknowledgeMessagesError::Closed/ ensures st.code == Code::FailedPrecondition
//@ closure /ModifyDeadlineError::Closed/ ret st: Status
//@ closure /ModifyDeadlineError::Closed/ ensures st.code == Code::FailedPrecondition
//@ proof-after /\.collect::<Result<Vec<_>, Status>>\(\)\?;/ { assert forall|i: int| 0 <= i < request.ack_ids@.len() implies parsed::<u64>((#[trigger] request.ack_ids@[i])@).is_some() by { let x = ack_ids@[i]; } }
//@end
//@fn src/api/subscriber.rs conflict tags=C17
//@ ret r
//@ ensures[C17,NEEDS-WITNESS] r.code == Code::FailedPrecondition
//@end

    /// C05 at the RPC surface: every ack id is well-formed and the one seconds value is not negative
    pub open spec fn modack_ok(ids: Seq<String>, secs: i32) -> bool { ids_ok(ids) && (ids.len() > 0 ==> secs >= 0) }
    impl SubscriberService {
//@fn src/api/subscriber.rs SubscriberService::acknowledge tags=C02
//@ ret r
//@ # C17: one malformed ack id or a malformed name: INVALID_ARGUMENT; C10: an absent subscription: NOT_FOUND
//@ ensures[C17] !ids_ok(request.m.ack_ids@) || parsed_name(request.m.subscription@).is_none() ==> err_code(r) == Some(Code::InvalidArgument)
//@ ensures[C10] (match parsed_name(request.m.subscription@) { Some(n) => ids_ok(request.m.ack_ids@) && (lookup(*self.subscription_manager, n) matches Err(GetSubscriptionError::DoesNotExist)) ==> err_code(r) == Some(Code::NotFound), None => true })
//@ # C02: OK means that the subscription the name denotes was handed exactly the ack ids of the request, in order
//@ ensures[C10] r.is_ok() ==> parsed_name(request.m.subscription@).is_some() && lookup(*self.subscription_manager, parsed_name(request.m.subscription@).unwrap()).is_ok()
//@ # (stated with the ids in request order - more than C02 needs: NEEDS-WITNESS)
//@ ensures[C02,NEEDS-WITNESS] r.is_ok() && request.m.ack_ids@.len() > 0 ==> exists|s: Arc<Subscription>, ids: Seq<AckId>| #[trigger] acked(*s, ids) && lookup(*self.subscription_manager, parsed_name(request.m.subscription@).unwrap()) == Ok::<Arc<Subscription>, GetSubscriptionError>(s) && ids.len() == request.m.ack_ids@.len() && forall|i: int| #![trigger ids[i]] 0 <= i < ids.len() ==> ids[i].v() == parsed::<u64>(request.m.ack_ids@[i]@).unwrap()
//@ proof-after /\.collect::<Result<Vec<_>, Status>>\(\)\?;/ { assert forall|i: int| 0 <= i < request.ack_ids@.len() implies parsed::<u64>((#[trigger] request.ack_ids@[i])@).is_some() by { let x = ack_ids@[i]; } }
//@ closure /parser::parse_ack_id/ ret a: Result<AckId, Status>
//@ closure /parser::parse_ack_id/ ensures (match a { Ok(x) => parsed::<u64>($1@).is_some() && x.v() == parsed::<u64>($1@).unwrap(), Err(e) => parsed::<u64>($1@).is_none() && e.code == Code::InvalidArgument })
//@ closure /AcknowledgeMessagesError::Closed/ ret st: Status
//@ closure /AcknowledgeMessagesError::Closed/ ensures st.code == Code::Internal
//@end

//@fn src/api/subscriber.rs SubscriberService::modify_ack_deadline tags=C05
//@ ret r
//@ # C05 / C17: a malformed ack id, a negative seconds value (with at least one ack id) or a malformed name: INVALID_ARGUMENT
//@ ensures[C05,C17] !modack_ok(request.m.ack_ids@, request.m.ack_deadline_seconds) || parsed_name(request.m.subscription@).is_none() ==> err_code(r) == Some(Code::InvalidArgument)
//@ ensures[C10] (match parsed_name(request.m.subscription@) { Some(n) => modack_ok(request.m.ack_ids@, request.m.ack_deadline_seconds) && (lookup(*self.subscription_manager, n) matches Err(GetSubscriptionError::DoesNotExist)) ==> err_code(r) == Some(Code::NotFound), None => true })
//@ # C05: OK means that the subscription the name denotes was handed one modification per ack id of the request, in
//@ # order, each with the request's seconds value applied as the per-pair rule says (deadline = now + N, N = 0 nack)
//@ ensures[C10] r.is_ok() ==> parsed_name(request.m.subscription@).is_some() && lookup(*self.subscription_manager, parsed_name(request.m.subscription@).unwrap()).is_ok()
//@ ensures[C05] r.is_ok() && request.m.ack_ids@.len() > 0 ==> exists|s: Arc<Subscription>, mods: Seq<DeadlineModification>, now: int| #![trigger modified(*s, mods), mods_ok(now, request.m.ack_ids@, request.m.ack_deadline_seconds, mods)] modified(*s, mods) && lookup(*self.subscription_manager, parsed_name(request.m.subscription@).unwrap()) == Ok::<Arc<Subscription>, GetSubscriptionError>(s) && mods_ok(now, request.m.ack_ids@, request.m.ack_deadline_seconds, mods)
//@ proof-after /^\s*\)\?;\s*$/ { assert forall|i: int| 0 <= i < request.ack_ids@.len() implies parsed::<u64>((#[trigger] request.ack_ids@[i])@).is_some() by { let x = deadline_modifications@[i]; } if request.ack_ids@.len() > 0 { let x = deadline_modifications@[0]; } assert(modack_ok(request.ack_ids@, request.ack_deadline_seconds)); assert(mods_ok(now.v(), request.ack_ids@, request.ack_deadline_seconds, deadline_modifications@)); }
//@ closure /request\.ack_deadline_seconds/ ret sec: i32
//@ closure /request\.ack_deadline_seconds/ ensures sec == request.ack_deadline_seconds
//@ closure /ModifyDeadlineError::Closed/ ret st: Status
//@ closure /ModifyDeadlineError::Closed/ ensures st.code == Code::Internal
//@end
    }
}

// ======================================================================================
// regions of src/api/subscriber.rs (statements lifted out of async handlers, see DESIGN §4)
//@include prelude/proto.rs

//@fn src/api/subscriber.rs SubscriberService::create_subscription tags=C04 name=ack_deadline_region tail=ack_deadline
//@ region /^\s*let ack_deadline = / /^\s*\};\s*$/ as fn ack_deadline_region(request: &SubscriptionProto) -> (ack_deadline: Duration)
//@ # C04/C10: the effective ack deadline is the requested one, but at least 10 s, for every i32
//@ ensures[C04] dur_ns(ack_deadline) == (if request.ack_deadline_seconds <= 10 { 10 } else { request.ack_deadline_seconds as int }) * 1_000_000_000
//@end

//@fn src/api/subscriber.rs SubscriberService::streaming_pull tags=C15 name=stream_max_count tail=Ok(max_count)
//@ region /let max_count: u16 = request\.max_outstanding_messages\.try_into\(\)\.map_err/ /^\s*\}\)\?;\s*$/ as fn stream_max_count(request: &StreamingPullRequest) -> (r: Result<u16, Status>)
//@ # C15/C17: the streaming limit is taken over unchanged when it fits 16 bits, otherwise INVALID_ARGUMENT
//@ ensures[C15] 0 <= request.max_outstanding_messages <= 65535 ==> r.is_ok() && r.unwrap() == request.max_outstanding_messages
//@ ensures[C17] !(0 <= request.max_outstanding_messages <= 65535) ==> err_code(r) == Some(Code::InvalidArgument)
//@ closure 1 ret e: Status
//@ closure 1 ensures e.code == Code::InvalidArgument
//@end

//@fn src/api/subscriber.rs handle_streaming_pull_request tags=C17 name=stream_validate tail=Ok(())
//@ region /if !request\.subscription\.is_empty\(\) \{/ /if request\.modify_deadline_seconds\.len\(\) != request\.modify_deadline_ack_ids\.len\(\) \{/ as fn stream_validate(request: &StreamingPullRequest) -> (r: Result<(), Status>)
//@ # C17: an inconsistent control message is rejected with INVALID_ARGUMENT before any subscription call
//@ ensures[C17] (request.subscription@.len() > 0 || request.max_outstanding_bytes > 0 || request.max_outstanding_messages > 0 || request.modify_deadline_seconds@.len() != request.modify_deadline_ack_ids@.len()) ==> err_code(r) == Some(Code::InvalidArgument)
//@ ensures[C17] !(request.subscription@.len() > 0 || request.max_outstanding_bytes > 0 || request.max_outstanding_messages > 0 || request.modify_deadline_seconds@.len() != request.modify_deadline_ack_ids@.len()) ==> r.is_ok()
//@end

// ======================================================================================
// layer 2 (C13): following next-page offsets enumerates the list exactly once, in order
//@tags C13
pub open spec fn imin(a: int, b: int) -> int { if a < b { a } else { b } }
/// the page a list operation returns for (skip, size) over the filtered + sorted list `l`
/// (this is the contract the three list bodies are verified against in bundle B4)
pub open spec fn page_items<T>(l: Seq<T>, skip: int, size: int) -> Seq<T> {
    l.subrange(imin(skip, l.len() as int), imin(skip + size, l.len() as int))
}
/// the offset handed back with that page (Paging::next_page_from_slice_result)
pub open spec fn page_next<T>(l: Seq<T>, skip: int, size: int) -> Option<int> {
    if page_items(l, skip, size).len() > 0 { Some(skip + page_items(l, skip, size).len()) } else { None }
}
/// concatenation of the pages obtained by following the offsets, at most `fuel` requests
pub open spec fn walk<T>(l: Seq<T>, skip: int, size: int, fuel: nat) -> Seq<T>
    decreases fuel
{
    if fuel == 0 { Seq::empty() } else {
        match page_next(l, skip, size) {
            None => page_items(l, skip, size),
            Some(o) => page_items(l, skip, size) + walk(l, o, size, (fuel - 1) as nat),
        }
    }
}
/// number of requests a client makes until it sees an empty token
pub open spec fn walk_requests<T>(l: Seq<T>, skip: int, size: int, fuel: nat) -> nat
    decreases fuel
{
    if fuel == 0 { 0 } else {
        match page_next(l, skip, size) {
            None => 1,
            Some(o) => 1 + walk_requests(l, o, size, (fuel - 1) as nat),
        }
    }
}
pub proof fn lemma_page_bounds<T>(l: Seq<T>, skip: int, size: int)
    requires skip >= 0, size >= 1
    ensures
        page_items(l, skip, size).len() <= size,
        // a hostile offset beyond the end yields an empty page and no further token
        skip >= l.len() ==> page_items(l, skip, size).len() == 0 && page_next(l, skip, size).is_none(),
        skip < l.len() ==> page_items(l, skip, size).len() >= 1,
        forall|i: int| 0 <= i < page_items(l, skip, size).len() ==> page_items(l, skip, size)[i] == l[skip + i],
{
}
/// C13 walk lemma: from any offset within the list, following tokens yields exactly the rest of the list,
/// in order, each element once; in particular from the first page (skip = 0) the whole list.
pub proof fn lemma_walk<T>(l: Seq<T>, skip: int, size: int, fuel: nat)
    requires 0 <= skip <= l.len(), size >= 1, fuel >= l.len() - skip + 1
    ensures
        walk(l, skip, size, fuel) =~= l.subrange(skip, l.len() as int),
        walk_requests(l, skip, size, fuel) <= l.len() - skip + 1,
    decreases l.len() - skip
{
    lemma_page_bounds(l, skip, size);
    let items = page_items(l, skip, size);
    if skip < l.len() {
        let o = skip + items.len();
        lemma_walk(l, o, size, (fuel - 1) as nat);
        assert(items + l.subrange(o, l.len() as int) =~= l.subrange(skip, l.len() as int));
    } else {
        assert(items =~= l.subrange(skip, l.len() as int));
    }
}
pub proof fn lemma_walk_all<T>(l: Seq<T>, size: int)
    requires size >= 1
    ensures walk(l, 0, size, (l.len() + 1) as nat) =~= l
{
    lemma_walk(l, 0, size, (l.len() + 1) as nat);
}
//@tags

} // verus!
fn main() {}
