//@bundle title payload mapping: PubsubMessage -> TopicMessage -> ReceivedMessage, HTTP push payload
#![feature(allocator_api)]
#![allow(unused_imports, dead_code, unused_variables, unused_mut)]
use vstd::prelude::*;
use vstd::std_specs::hash::*;
use std::collections::HashMap;
use std::sync::Arc;

verus! {

broadcast use {vstd::std_specs::hash::group_hash_axioms, enc_ax::display_u64_injective, enc_ax::b64_injective, enc_ax::axiom_string_key_model, string_conv_ax::to_string_ensures_for_string};

//@include prelude/mapping_stubs.rs
//@include prelude/string_conv.rs

// ======================================================================================
// src/topics/topic_message.rs
//@item src/topics/topic_message.rs struct MessageId drop-derive=Debug,Hash
//@item src/topics/topic_message.rs struct TopicMessage drop-derive=Debug
impl MessageId {
    // TRUSTED (A-STR): `Display for MessageId` is `self.value.fmt(f)` (src/topics/topic_message.rs:53-57); `to_string`
    // comes from std's blanket impl. Modelled as the decimal rendering of the value.
    #[verifier::external_body]
    pub fn to_string(&self) -> (r: String) ensures r@ == display_u64(self.value) { unimplemented!() }
}
impl TopicMessage {
//@fn src/topics/topic_message.rs TopicMessage::new tags=C09
//@ ret r
//@ ensures[C09] r.data == data, r.attributes == attributes
//@end
}

/// attribute map carried by a TopicMessage (None is the empty map)
pub open spec fn attrs_of(m: TopicMessage) -> Map<String, String> {
    match m.attributes { Some(a) => a@, None => Map::empty() }
}

// ======================================================================================
// src/api/parser.rs
//@fn src/api/parser.rs parse_topic_message tags=C09
//@ ret r
//@ # C09: exactly the published data bytes and attributes
//@ ensures[C09] r.data@ == message_proto.data@
//@ ensures[C09] attrs_of(r) == message_proto.attributes@
//@ proof-before /^\s*TopicMessage::new\(data, attributes\)\s*$/ { if message_proto.attributes@.len() == 0 { message_proto.attributes@.dom().lemma_len0_is_empty(); assert(message_proto.attributes@ =~= Map::empty()); } }
//@end

// ======================================================================================
// src/api/subscriber.rs: TopicMessage -> ReceivedMessage
//@item src/subscriptions/ack_id.rs struct AckId drop-derive=Debug,PartialOrd,Ord,Hash
impl AckId {
    // TRUSTED (A-STR): `Display for AckId` writes `self.value` (src/subscriptions/ack_id.rs:38-42)
    pub closed spec fn val(&self) -> u64 { self.value }
    #[verifier::external_body]
    pub fn to_string(&self) -> (r: String) ensures r@ == display_u64(self.val()) { unimplemented!() }
}
/// stand-in for the deadline field of PulledMessage (not read by the mapping code; verified in bundle B1)
#[derive(Clone, Copy)]
pub struct AckDeadline { pub t: u64 }
//@item src/subscriptions/pulled_message.rs struct PulledMessage drop-derive=Debug,Clone
impl PulledMessage {
    pub closed spec fn id(&self) -> AckId { self.ack_id }
    pub closed spec fn msg(&self) -> Arc<TopicMessage> { self.message }
//@fn src/subscriptions/pulled_message.rs PulledMessage::message tags=C09
//@ ret r
//@ ensures *r == self.msg()
//@end
//@fn src/subscriptions/pulled_message.rs PulledMessage::ack_id tags=C09
//@ ret r
//@ ensures r == self.id()
//@end
}

//@fn src/api/subscriber.rs map_to_received_message tags=C09
//@ ret r
//@ # C09: every delivery carries exactly the published data bytes and attributes, the id Publish returned,
//@ # and the one publish time stored at publish; the ack id is the lease's
//@ ensures[C09] r.message.is_some()
//@ ensures[C09] r.message.unwrap().data@ == m.msg().data@
//@ ensures[C09] r.message.unwrap().attributes@ == attrs_of(*m.msg())
//@ ensures[C09] r.message.unwrap().message_id@ == display_u64(m.msg().id.value)
//@ ensures[C09] r.message.unwrap().publish_time == Some(ts_of(m.msg().published_at))
//@ ensures[C02,C09] r.ack_id@ == display_u64(m.id().val())
//@end

// ======================================================================================
// src/api/subscriber.rs: the unary Pull path between the gRPC request and the subscription handle
//   request.max_messages  --(`as u16`, region of `pull`)-->  helper `pull_messages`  -->  handle  -->  actor (bundle B1)
//@include prelude/status.rs
//@item src/subscriptions/errors.rs enum PullMessagesError drop-derive=thiserror::Error strip-attr=error
pub mod pull_glue {
    use super::*;
    /// the messages one `Subscription::pull_messages(max)` call on the handle hands out (decided by the actor)
    pub uninterp spec fn handed_out(s: PullHandle, max: u16, p: Seq<PulledMessage>) -> bool;
}
pub use pull_glue::handed_out;
/// the count clause of the actor's `pull_messages` contract that concerns the limit (proved in bundle B1 as part of
/// `count_ok`): at most `max` messages, at most one when the 16-bit limit is 0
pub open spec fn limit_ok(n: int, max: u16) -> bool { n <= (if max == 0 { 1 } else { max as int }) }
/// TRUSTED (A-GLUE): stand-in for the `Subscription` handle: `pull_messages` forwards the request to the actor over
/// its mailbox and returns the actor's reply; the reply satisfies the count clause proved for
/// `SubscriptionActor::pull_messages` in bundle B1
pub struct PullHandle { pub x: u64 }
impl PullHandle {
    #[verifier::external_body]
    pub async fn pull_messages(&self, max_count: u16) -> (r: Result<Vec<PulledMessage>, PullMessagesError>)
        ensures (match r { Ok(v) => handed_out(*self, max_count, v@) && limit_ok(v@.len() as int, max_count), Err(_) => true })
    { unimplemented!() }
}
pub mod subscriptions { pub use super::PullHandle as Subscription; }
/// C09: one delivery as it leaves the server carries what the lease holds (the clauses of map_to_received_message)
pub open spec fn recv_ok(m: PulledMessage, r: ReceivedMessage) -> bool {
    &&& r.message.is_some()
    &&& r.message.unwrap().data@ == m.msg().data@
    &&& r.message.unwrap().attributes@ == attrs_of(*m.msg())
    &&& r.message.unwrap().message_id@ == display_u64(m.msg().id.value)
    &&& r.message.unwrap().publish_time == Some(ts_of(m.msg().published_at))
    &&& r.ack_id@ == display_u64(m.id().val())
}
//@fn src/api/subscriber.rs conflict tags=C15
//@ ret r
//@ ensures[C15,NEEDS-WITNESS] r.code == Code::FailedPrecondition
//@end
//@fn src/api/subscriber.rs pull_messages tags=C15 keep-paths=1
//@ ret r
//@ # C15: the helper returns one ReceivedMessage per message the subscription handed out - never more than the limit
//@ ensures[C15] (match r { Ok(v) => limit_ok(v@.len() as int, max_messages), Err(_) => true })
//@ # C09: ... and each of them carries the content and ids of the lease at the same position
//@ ensures[C09] (match r { Ok(v) => exists|p: Seq<PulledMessage>| #[trigger] handed_out(*subscription, max_messages, p) && p.len() == v@.len() && forall|i: int| 0 <= i < p.len() ==> recv_ok(p[i], v@[i]), Err(_) => true })
//@ ensures[C15,NEEDS-WITNESS] (match r { Ok(_) => true, Err(e) => e.code == Code::FailedPrecondition })
//@ closure 1 ret st: Status
//@ closure 1 ensures st.code == Code::FailedPrecondition
//@end
pub struct PullRequest { pub subscription: String, pub return_immediately: bool, pub max_messages: i32 }
//@fn src/api/subscriber.rs SubscriberService::pull tags=C15 name=pull_cast_region tail=Ok(received_messages)
//@ region /^\s*let received_messages =\s*$/ /pull_messages\(.subscription, .*\)\.await\?;/ as async fn pull_cast_region(subscription: &PullHandle, request: &PullRequest) -> (r: Result<Vec<ReceivedMessage>, Status>)
//@ # C15: a Pull with max_messages >= 1 returns at most max_messages messages, whatever the 16-bit truncation yields
//@ ensures[C15] request.max_messages >= 1 ==> (match r { Ok(v) => v@.len() <= request.max_messages, Err(_) => true })
//@ proof-start[C15] { lemma_cast_limit(request.max_messages); }
//@end
pub struct PullResponse { pub received_messages: Vec<ReceivedMessage> }
pub struct PullRpcResponse<T> { pub m: T }
pub type Response<T> = PullRpcResponse<T>;
impl<T> PullRpcResponse<T> { pub fn new(m: T) -> (r: Self) ensures r.m == m { PullRpcResponse { m } } }
//@fn src/api/subscriber.rs SubscriberService::pull tags=C15 name=pull_empty_rule tail=Err(Status::internal("keep~waiting"))
//@ region /^\s*if request\.return_immediately/ /^\s*if request\.return_immediately/ as fn pull_empty_rule(request: &PullRequest, received_messages: Vec<ReceivedMessage>) -> (r: Result<Response<PullResponse>, Status>)
//@ # C15: inside the wait loop an empty batch is answered at once only when return_immediately is set (otherwise the
//@ # handler goes on to wait for the signal; `Err` stands for "falls through to `signal.await`")
//@ ensures[C15] r.is_ok() ==> request.return_immediately
//@ ensures[C15] request.return_immediately ==> (match r { Ok(resp) => resp.m.received_messages == received_messages, Err(_) => false })
//@end
//@tags C15
/// for m >= 1 the effective limit of `m as u16` (one message when that is 0) is at most m
pub proof fn lemma_cast_limit(m: i32)
    ensures m >= 1 ==> (if (m as u16) == 0 { 1 } else { (m as u16) as int }) <= m
{
    if m >= 1 {
        let c = m as u16;
        assert(m as u16 == (m as u32 % 0x1_0000) as u16) by (bit_vector);
        if c != 0 {
            assert(c as int <= m) by {
                assert(m >= 1 ==> ((m as u32 % 0x1_0000) as u16) as int <= m as int) by (bit_vector);
            }
        }
    }
}
//@tags

// ======================================================================================
// src/api/publisher.rs: the Publish handler (async fn, whole body): request -> parse -> lookup -> topic handle -> ids
//@item src/topics/topic_actor.rs struct PublishMessagesResponse
pub mod publisher {
    use super::*;
    broadcast use {vstd::std_specs::hash::group_hash_axioms, enc_ax::display_u64_injective, enc_ax::axiom_string_key_model, string_conv_ax::to_string_ensures_for_string, vstd::std_specs::iter::group_iter_axioms};
//@item src/topics/errors.rs enum PublishMessagesError drop-derive=thiserror::Error strip-attr=error
//@item src/topics/errors.rs enum GetTopicError drop-derive=thiserror::Error,PartialEq strip-attr=error
    // ---- TRUSTED (A-STUB): tonic's Request / Response wrappers, the tracing span, the prost request / response structs
    pub struct Request<T> { pub m: T }
    impl<T> Request<T> { pub fn get_ref(&self) -> (r: &T) ensures *r == self.m { &self.m } }
    pub struct Response<T> { pub m: T }
    impl<T> Response<T> { pub fn new(m: T) -> (r: Self) ensures r.m == m { Response { m } } }
    pub struct ActivitySpan { pub x: u8 }
    impl ActivitySpan { pub fn start() -> Self { ActivitySpan { x: 0 } } }
    pub struct PublishRequest { pub topic: String, pub messages: Vec<PubsubMessage> }
    pub struct PublishResponse { pub message_ids: Vec<String> }
    pub struct TopicName { pub x: u64 }
    pub struct Topic { pub x: u64 }
    pub mod glue {
        use super::*;
        /// the topic name a string parses to (TopicName::try_parse, proved in bundle B3)
        pub uninterp spec fn parsed_name(s: Seq<char>) -> Option<TopicName>;
        /// the manager's lookup (map operations proved in bundle B4, NOT_FOUND mapping in bundle B6)
        pub uninterp spec fn lookup(s: PublisherService, name: TopicName) -> Result<Arc<Topic>, GetTopicError>;
        /// one `Topic::publish_messages(messages)` call on the handle was answered with these ids (decided by the actor)
        pub uninterp spec fn accepted(t: Topic, ms: Seq<TopicMessage>, ids: Seq<MessageId>) -> bool;
    }
    pub use glue::{parsed_name, lookup, accepted};
    pub mod parser {
        use super::*;
        pub(crate) use super::super::parse_topic_message;
        // assumed here, proved in bundles B2 / B3: INVALID_ARGUMENT exactly when the name does not parse
        #[verifier::external_body]
        pub fn parse_topic_name(raw_value: &str) -> (r: Result<TopicName, Status>)
            ensures (match parsed_name(raw_value@) { Some(n) => r == Ok::<TopicName, Status>(n), None => err_code(r) == Some(Code::InvalidArgument) })
        { unimplemented!() }
    }
    impl Topic {
        /// TRUSTED (A-GLUE): the handle forwards to the topic actor; "one id per message" is the contract proved for the
        /// id-assignment region of TopicActor::publish_messages in bundle B4
        #[verifier::external_body]
        pub async fn publish_messages(&self, messages: Vec<TopicMessage>) -> (r: Result<PublishMessagesResponse, PublishMessagesError>)
            ensures (match r { Ok(resp) => accepted(*self, messages@, resp.message_ids@) && resp.message_ids@.len() == messages@.len(), Err(_) => true })
        { unimplemented!() }
    }
    pub struct PublisherService { pub x: u64 }
//@fn src/api/publisher.rs conflict tags=C10
//@ ret r
//@ ensures[C10,NEEDS-WITNESS] r.code == Code::FailedPrecondition
//@end
//@fn src/api/publisher.rs topic_not_found tags=C10
//@ ret r
//@ ensures r.code == Code::NotFound
//@end
    /// C09: what the topic is handed for a request message: exactly its data bytes and attributes
    pub open spec fn carries(m: TopicMessage, p: PubsubMessage) -> bool { m.data@ == p.data@ && attrs_of(m) == p.attributes@ }
    impl PublisherService {
        // assumed here, proved in bundle B6 against the same contract
        #[verifier::external_body]
        pub async fn get_topic_internal(&self, topic_name: &TopicName) -> (r: Result<Arc<Topic>, Status>)
            ensures (match lookup(*self, *topic_name) { Ok(t) => r == Ok::<Arc<Topic>, Status>(t), Err(GetTopicError::DoesNotExist) => err_code(r) == Some(Code::NotFound), Err(GetTopicError::Closed) => err_code(r) == Some(Code::Internal) })
        { unimplemented!() }

//@fn src/api/publisher.rs PublisherService::publish tags=C08
//@ ret r
//@ # C17 / C18: a topic name that does not parse is INVALID_ARGUMENT; C10: an absent topic is NOT_FOUND
//@ ensures[C17] parsed_name(request.m.topic@).is_none() ==> err_code(r) == Some(Code::InvalidArgument)
//@ ensures[C10] (match parsed_name(request.m.topic@) { Some(n) => (lookup(*self, n) matches Err(GetTopicError::DoesNotExist)) ==> err_code(r) == Some(Code::NotFound), None => true })
//@ # C08: exactly one message id per submitted message ...
//@ ensures[C08] (match r { Ok(resp) => resp.m.message_ids@.len() == request.m.messages@.len(), Err(_) => true })
//@ # C08 / C09: ... the topic was handed every message of the request, in request order, with exactly its data and
//@ # attributes, and the response carries the text of the ids the topic answered with, in that order
//@ ensures[C09] (match r { Ok(resp) => exists|t: Topic, ms: Seq<TopicMessage>, ids: Seq<MessageId>| #[trigger] accepted(t, ms, ids) && ms.len() == request.m.messages@.len() && ids.len() == ms.len() && (forall|i: int| #![trigger ms[i]] 0 <= i < ms.len() ==> carries(ms[i], request.m.messages@[i])) && (forall|i: int| #![trigger ids[i]] 0 <= i < ids.len() ==> resp.m.message_ids@[i]@ == display_u64(ids[i].value)), Err(_) => true })
//@ closure /PublishMessagesError::TopicDoesNotExist/ ret st: Status
//@ closure /PublishMessagesError::TopicDoesNotExist/ ensures (match $1 { PublishMessagesError::TopicDoesNotExist => st.code == Code::NotFound, PublishMessagesError::Closed => st.code == Code::FailedPrecondition })
//@ closure /\.to_string\(\)/ ret s: String
//@ closure /\.to_string\(\)/ ensures s@ == display_u64($1.value)
//@end
    }
}

// ======================================================================================
// src/push/push_loop.rs: HTTP push payload (region of encode_message_payload up to the serde_json call)
// TRUSTED (A-LIB): the four stock engines of the base64 crate; `b64` is the STANDARD alphabet with padding (the one
// Pub/Sub's JSON push format uses), the other three are modelled as different, unconstrained encodings
pub struct B64Engine { x: u8 }
pub struct B64EngineUrl { x: u8 }
pub struct B64EngineNoPad { x: u8 }
pub struct B64EngineUrlNoPad { x: u8 }
pub uninterp spec fn b64_url(s: Seq<u8>) -> Seq<char>;
pub uninterp spec fn b64_nopad(s: Seq<u8>) -> Seq<char>;
pub uninterp spec fn b64_url_nopad(s: Seq<u8>) -> Seq<char>;
/// what `Engine::encode<T: AsRef<[u8]>>` reads from its argument
pub trait B64Input { spec fn bytes_spec(&self) -> Seq<u8>; }
impl B64Input for Bytes { open spec fn bytes_spec(&self) -> Seq<u8> { self@ } }
impl B64Input for &Bytes { open spec fn bytes_spec(&self) -> Seq<u8> { (**self)@ } }
impl B64Input for Vec<u8> { open spec fn bytes_spec(&self) -> Seq<u8> { self@ } }
impl B64Input for &Vec<u8> { open spec fn bytes_spec(&self) -> Seq<u8> { (**self)@ } }
impl B64Engine {
    #[verifier::external_body]
    pub fn encode<T: B64Input>(&self, input: T) -> (r: String) ensures r@ == b64(input.bytes_spec()) { unimplemented!() }
}
impl B64EngineUrl {
    #[verifier::external_body]
    pub fn encode<T: B64Input>(&self, input: T) -> (r: String) ensures r@ == b64_url(input.bytes_spec()) { unimplemented!() }
}
impl B64EngineNoPad {
    #[verifier::external_body]
    pub fn encode<T: B64Input>(&self, input: T) -> (r: String) ensures r@ == b64_nopad(input.bytes_spec()) { unimplemented!() }
}
impl B64EngineUrlNoPad {
    #[verifier::external_body]
    pub fn encode<T: B64Input>(&self, input: T) -> (r: String) ensures r@ == b64_url_nopad(input.bytes_spec()) { unimplemented!() }
}
pub mod base64 { pub mod engine { pub mod general_purpose {
    use super::super::super::*;
    pub exec const STANDARD: B64Engine = B64Engine { x: 0 };
    pub exec const URL_SAFE: B64EngineUrl = B64EngineUrl { x: 0 };
    pub exec const STANDARD_NO_PAD: B64EngineNoPad = B64EngineNoPad { x: 0 };
    pub exec const URL_SAFE_NO_PAD: B64EngineUrlNoPad = B64EngineUrlNoPad { x: 0 };
} } }
pub struct SubscriptionName { pub x: u8 }
pub uninterp spec fn display_sub(n: SubscriptionName) -> Seq<char>;
impl SubscriptionName {
    // TRUSTED (A-STR): `Display for SubscriptionName` writes the canonical form (src/subscriptions/subscription_name.rs:67-75)
    #[verifier::external_body]
    pub fn to_string(&self) -> (r: String) ensures r@ == display_sub(*self) { unimplemented!() }
}
pub struct Subscription { pub name: SubscriptionName }
//@item src/push/push_loop.rs struct PushPayload drop-derive=Serialize,Deserialize
//@item src/push/push_loop.rs struct PushPayloadMessage drop-derive=Serialize,Deserialize strip-attr=serde

//@fn src/push/push_loop.rs encode_message_payload tags=C09 name=push_payload_region tail=payload
//@ region /^\s*let encoded_data = / /^\s*\};\s*$/ as fn push_payload_region(subscription: &Arc<Subscription>, message: &Arc<TopicMessage>) -> (payload: PushPayload)
//@ # C09: the push delivery names the subscription and carries the base64 data, the message id (both casings) ...
//@ ensures[C09] payload.subscription@ == display_sub(subscription.name)
//@ ensures[C09] payload.message.data@ == b64(message.data@)
//@ ensures[C09] payload.message.message_id@ == display_u64(message.id.value) && payload.message.message_id_dupe@ == display_u64(message.id.value)
//@ # ... and exactly the published attributes
//@ ensures[C09] payload.message.attributes@ == attrs_of(**message)
//@end

} // verus!
fn main() {}
