//@bundle title payload mapping: PubsubMessage -> TopicMessage -> ReceivedMessage, HTTP push payload
#![feature(allocator_api)]
#![allow(unused_imports, dead_code, unused_variables, unused_mut)]
use vstd::prelude::*;
use vstd::std_specs::hash::*;
use std::collections::HashMap;
use std::sync::Arc;

verus! {

broadcast use {vstd::std_specs::hash::group_hash_axioms, enc_ax::display_u64_injective, enc_ax::b64_injective, enc_ax::axiom_string_key_model, string_conv_ax::to_string_ensures_for_string};

//@include prelude/mapping_stubs.rs
//@include prelude/string_conv.rs

// ======================================================================================
// src/topics/topic_message.rs
//@item src/topics/topic_message.rs struct MessageId drop-derive=Debug,Hash
//@item src/topics/topic_message.rs struct TopicMessage drop-derive=Debug
impl MessageId {
    // TRUSTED (A-STR): `Display for MessageId` is `self.value.fmt(f)` (src/topics/topic_message.rs:53-57); `to_string`
    // comes from std's blanket impl. Modelled as the decimal rendering of the value.
    #[verifier::external_body]
    pub fn to_string(&self) -> (r: String) ensures r@ == display_u64(self.value) { unimplemented!() }
}
impl TopicMessage {
//@fn src/topics/topic_message.rs TopicMessage::new tags=C09
//@ ret r
//@ ensures[C09] r.data == data, r.attributes == attributes
//@end
}

/// attribute map carried by a TopicMessage (None is the empty map)
pub open spec fn attrs_of(m: TopicMessage) -> Map<String, String> {
    match m.attributes { Some(a) => a@, None => Map::empty() }
}

// ======================================================================================
// src/api/parser.rs
//@fn src/api/parser.rs parse_topic_message tags=C09
//@ ret r
//@ # C09: exactly the published data bytes and attributes
//@ ensures[C09] r.data@ == message_proto.data@
//@ ensures[C09] attrs_of(r) == message_proto.attributes@
//@ proof-before /^\s*TopicMessage::new\(data, attributes\)\s*$/ { if message_proto.attributes@.len() == 0 { message_proto.attributes@.dom().lemma_len0_is_empty(); assert(message_proto.attributes@ =~= Map::empty()); } }
//@end

// ======================================================================================
// src/api/subscriber.rs: TopicMessage -> ReceivedMessage
//@item src/subscriptions/ack_id.rs struct AckId drop-derive=Debug,PartialOrd,Ord,Hash
impl AckId {
    // TRUSTED (A-STR): `Display for AckId` writes `self.value` (src/subscriptions/ack_id.rs:38-42)
    pub closed spec fn val(&self) -> u64 { self.value }
    #[verifier::external_body]
    pub fn to_string(&self) -> (r: String) ensures r@ == display_u64(self.val()) { unimplemented!() }
}
/// stand-in for the deadline field of PulledMessage (not read by the mapping code; verified in bundle B1)
#[derive(Clone, Copy)]
pub struct AckDeadline { pub t: u64 }
//@item src/subscriptions/pulled_message.rs struct PulledMessage drop-derive=Debug,Clone
impl PulledMessage {
    pub closed spec fn id(&self) -> AckId { self.ack_id }
    pub closed spec fn msg(&self) -> Arc<TopicMessage> { self.message }
//@fn src/subscriptions/pulled_message.rs PulledMessage::message tags=C09
//@ ret r
//@ ensures *r == self.msg()
//@end
//@fn src/subscriptions/pulled_message.rs PulledMessage::ack_id tags=C09
//@ ret r
//@ ensures r == self.id()
//@end
}

//@fn src/api/subscriber.rs map_to_received_message tags=C09
//@ ret r
//@ # C09: every delivery carries exactly the published data bytes and attributes, the id Publish returned,
//@ # and the one publish time stored at publish; the ack id is the lease's
//@ ensures[C09] r.message.is_some()
//@ ensures[C09] r.message.unwrap().data@ == m.msg().data@
//@ ensures[C09] r.message.unwrap().attributes@ == attrs_of(*m.msg())
//@ ensures[C09] r.message.unwrap().message_id@ == display_u64(m.msg().id.value)
//@ ensures[C09] r.message.unwrap().publish_time == Some(ts_of(m.msg().published_at))
//@ ensures[C02,C09] r.ack_id@ == display_u64(m.id().val())
//@end

// ======================================================================================
// src/push/push_loop.rs: HTTP push payload (region of encode_message_payload up to the serde_json call)
// TRUSTED (A-LIB): the four stock engines of the base64 crate; `b64` is the STANDARD alphabet with padding (the one
// Pub/Sub's JSON push format uses), the other three are modelled as different, unconstrained encodings
pub struct B64Engine { x: u8 }
pub struct B64EngineUrl { x: u8 }
pub struct B64EngineNoPad { x: u8 }
pub struct B64EngineUrlNoPad { x: u8 }
pub uninterp spec fn b64_url(s: Seq<u8>) -> Seq<char>;
pub uninterp spec fn b64_nopad(s: Seq<u8>) -> Seq<char>;
pub uninterp spec fn b64_url_nopad(s: Seq<u8>) -> Seq<char>;
/// what `Engine::encode<T: AsRef<[u8]>>` reads from its argument
pub trait B64Input { spec fn bytes_spec(&self) -> Seq<u8>; }
impl B64Input for Bytes { open spec fn bytes_spec(&self) -> Seq<u8> { self@ } }
impl B64Input for &Bytes { open spec fn bytes_spec(&self) -> Seq<u8> { (**self)@ } }
impl B64Input for Vec<u8> { open spec fn bytes_spec(&self) -> Seq<u8> { self@ } }
impl B64Input for &Vec<u8> { open spec fn bytes_spec(&self) -> Seq<u8> { (**self)@ } }
impl B64Engine {
    #[verifier::external_body]
    pub fn encode<T: B64Input>(&self, input: T) -> (r: String) ensures r@ == b64(input.bytes_spec()) { unimplemented!() }
}
impl B64EngineUrl {
    #[verifier::external_body]
    pub fn encode<T: B64Input>(&self, input: T) -> (r: String) ensures r@ == b64_url(input.bytes_spec()) { unimplemented!() }
}
impl B64EngineNoPad {
    #[verifier::external_body]
    pub fn encode<T: B64Input>(&self, input: T) -> (r: String) ensures r@ == b64_nopad(input.bytes_spec()) { unimplemented!() }
}
impl B64EngineUrlNoPad {
    #[verifier::external_body]
    pub fn encode<T: B64Input>(&self, input: T) -> (r: String) ensures r@ == b64_url_nopad(input.bytes_spec()) { unimplemented!() }
}
pub mod base64 { pub mod engine { pub mod general_purpose {
    use super::super::super::*;
    pub exec const STANDARD: B64Engine = B64Engine { x: 0 };
    pub exec const URL_SAFE: B64EngineUrl = B64EngineUrl { x: 0 };
    pub exec const STANDARD_NO_PAD: B64EngineNoPad = B64EngineNoPad { x: 0 };
    pub exec const URL_SAFE_NO_PAD: B64EngineUrlNoPad = B64EngineUrlNoPad { x: 0 };
} } }
pub struct SubscriptionName { pub x: u8 }
pub uninterp spec fn display_sub(n: SubscriptionName) -> Seq<char>;
impl SubscriptionName {
    // TRUSTED (A-STR): `Display for SubscriptionName` writes the canonical form (src/subscriptions/subscription_name.rs:67-75)
    #[verifier::external_body]
    pub fn to_string(&self) -> (r: String) ensures r@ == display_sub(*self) { unimplemented!() }
}
pub struct Subscription { pub name: SubscriptionName }
//@item src/push/push_loop.rs struct PushPayload drop-derive=Serialize,Deserialize
//@item src/push/push_loop.rs struct PushPayloadMessage drop-derive=Serialize,Deserialize strip-attr=serde

//@fn src/push/push_loop.rs encode_message_payload tags=C09 name=push_payload_region tail=payload
//@ region /^\s*let encoded_data = / /^\s*\};\s*$/ as fn push_payload_region(subscription: &Arc<Subscription>, message: &Arc<TopicMessage>) -> (payload: PushPayload)
//@ # C09: the push delivery names the subscription and carries the base64 data, the message id (both casings) ...
//@ ensures[C09] payload.subscription@ == display_sub(subscription.name)
//@ ensures[C09] payload.message.data@ == b64(message.data@)
//@ ensures[C09] payload.message.message_id@ == display_u64(message.id.value) && payload.message.message_id_dupe@ == display_u64(message.id.value)
//@ # ... and exactly the published attributes
//@ ensures[C09] payload.message.attributes@ == attrs_of(**message)
//@end

} // verus!
fn main() {}
