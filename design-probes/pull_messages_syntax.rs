#![feature(allocator_api)]
use vstd::prelude::*;
use std::collections::VecDeque;
use std::sync::Arc;
use std::time::Duration;
verus! {
#[derive(Copy, Clone)]
pub struct Instant { ns: u64 }
impl Instant {
    #[verifier::external_body]
    pub fn now() -> Instant { unimplemented!() }
}
impl std::ops::Add<Duration> for Instant {
    type Output = Instant;
    #[verifier::external_body]
    fn add(self, d: Duration) -> Instant { unimplemented!() }
}
#[derive(Debug)]
pub struct TopicMessage { pub id: u64 }
#[derive(Debug, Copy, Clone)]
pub struct AckId { value: u64 }
impl AckId { pub fn next(&self) -> Self  { Self { value: self.value.wrapping_add(1) } } }
#[derive(Copy, Clone)]
pub struct AckDeadline { time: Instant }
impl AckDeadline { #[verifier::external_body] pub fn new(t: &Instant) -> Self { unimplemented!() } }
#[derive(Clone)]
pub struct PulledMessage { message: Arc<TopicMessage>, ack_id: AckId, deadline: AckDeadline, delivery_attempt: u16 }
impl PulledMessage {
    pub fn new(message: Arc<TopicMessage>, ack_id: AckId, deadline: AckDeadline, delivery_attempt: u16) -> Self {
        Self { message, ack_id, deadline, delivery_attempt }
    }
}
pub struct Messages { pub list: VecDeque<Arc<TopicMessage>> }
impl Messages {
    pub fn len(&self) -> usize { self.list.len() }
    pub fn is_empty(&self) -> bool { self.len() == 0 }
    pub fn pop_front(&mut self) -> Option<Arc<TopicMessage>> { self.list.pop_front() }
}
pub struct Tracker { v: Vec<PulledMessage> }
impl Tracker { pub fn add(&mut self, m: PulledMessage) { self.v.push(m); } }
pub struct Observer { x: u8 }
impl Observer { #[verifier::external_body] pub fn notify_new_messages_available(&self) {} }
pub struct Info { pub ack_deadline: Duration }
pub enum PullMessagesError { Closed }
const MAX_PULL_COUNT: u16 = 1_000;
pub struct SubscriptionActor { info: Info, backlog: Messages, outstanding: Tracker, observer: Arc<Observer>, next_ack_id: AckId, deleted: bool }
impl SubscriptionActor {
    fn pull_messages(&mut self, max_count: u16) -> Result<Vec<PulledMessage>, PullMessagesError> {
        if self.deleted {
            return Ok(Default::default());
        }

        let outgoing_len = self.backlog.len() as u16;
        let capacity = max_count.clamp(0, outgoing_len.max(MAX_PULL_COUNT)) as usize;
        let mut result = Vec::with_capacity(capacity);

        let now = Instant::now();
        let deadline = now + self.info.ack_deadline;
        while let Some(message) = self.backlog.pop_front() 
            decreases self.backlog.list@.len()
        {
            let ack_id = self.next_ack_id;
            self.next_ack_id = ack_id.next();

            let deadline = AckDeadline::new(&deadline);
            let pulled_message = PulledMessage::new(Arc::clone(&message), ack_id, deadline, 1);
            result.push(pulled_message.clone());

            // Track the outstanding message so we can ACK it later (and also expire it).
            self.outstanding.add(pulled_message);

            if result.len() >= capacity {
                break;
            }
        }

        // If there are still messages left in the backlog, trigger another signal.
        if !self.backlog.is_empty() {
            self.observer.notify_new_messages_available();
        }

        Ok(result)
    }
}
}
fn main() {}
