use vstd::prelude::*;
use vstd::std_specs::iter::*;
verus! {
broadcast use vstd::std_specs::iter::group_iter_axioms;
fn sum(it: std::vec::IntoIter<u64>) -> (r: u64)
    requires IteratorSpec::obeys_prophetic_iter_laws(&it), IteratorSpec::decrease(&it).is_some(),
    ensures r <= 100
{
    let mut c: u64 = 0;
    for x in it 
       invariant c <= 100
    {
        if c < 100 { c = c + 1; }
    }
    c
}
fn all_small(it: std::vec::IntoIter<u64>) -> (r: bool)
    requires IteratorSpec::obeys_prophetic_iter_laws(&it), IteratorSpec::decrease(&it).is_some(),

{
    let mut ok = true;
    for x in iter: it 
       invariant ok ==> forall|i: int| 0 <= i < iter.index() ==> iter.seq()[i] < 10
    {
        if x >= 10 { ok = false; }
    }
    ok
}
fn caller(v: Vec<u64>) { let r = all_small(v.into_iter()); }
}
fn main() {}
