use deltio::subscriptions::AckDeadline;
use std::time::Duration;
use tokio::time::Instant;

#[tokio::test(start_paused = true)]
async fn probe() {
    // first call fixes EPOCH
    let t0 = Instant::now();
    let d0 = AckDeadline::new(&t0);
    println!("d0 - t0 = {:?}", d0.time().duration_since(t0));
    // EPOCH == some instant >= t0. pick time = t0 + 10s + 100ms*k + 500ns
    for k in 0..3u64 {
        let t = t0 + Duration::from_secs(10) + Duration::from_millis(100 * k) + Duration::from_nanos(500);
        let d = AckDeadline::new(&t);
        println!("k={} deadline>=time? {} diff(time-deadline)={:?} diff(deadline-time)={:?}", k, d.time() >= t, t.saturating_duration_since(d.time()), d.time().saturating_duration_since(t));
    }
    let t = t0 + Duration::from_secs(10) + Duration::from_millis(30);
    let d = AckDeadline::new(&t);
    println!("30ms phase: deadline-time={:?}", d.time().saturating_duration_since(t));
}
