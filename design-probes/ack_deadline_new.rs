use vstd::prelude::*;
use std::time::Duration;
verus! {

// ---- trusted prelude: tokio::time::Instant stand-in, nanoseconds since an arbitrary origin
#[verifier::external_body]
#[verifier::reject_recursive_types]
#[derive(Copy, Clone)]
pub struct Instant { ns: u128 }
impl Instant {
    pub uninterp spec fn ns(&self) -> nat;
    #[verifier::external_body]
    pub fn duration_since(&self, earlier: Instant) -> (d: Duration)
        ensures dur_ns(d) == if self.ns() >= earlier.ns() { (self.ns() - earlier.ns()) as nat } else { 0 }
    { unimplemented!() }
    #[verifier::external_body]
    pub fn checked_add(&self, d: Duration) -> (r: Option<Instant>)
        ensures r.is_some() ==> r.unwrap().ns() == self.ns() + dur_ns(d),
                self.ns() + dur_ns(d) < 0x1_0000_0000_0000_0000_0000 ==> r.is_some()
    { unimplemented!() }
}
pub uninterp spec fn dur_ns(d: Duration) -> nat;

pub assume_specification [Duration::as_micros] (d: &Duration) -> (r: u128)
    ensures r == dur_ns(*d) / 1000;
pub assume_specification [Duration::from_micros] (us: u64) -> (r: Duration)
    ensures dur_ns(r) == us * 1000;

pub struct EpochCell;
pub uninterp spec fn epoch() -> Instant;
impl std::ops::Deref for EpochCell {
    type Target = Instant;
    #[verifier::external_body]
    fn deref(&self) -> (r: &Instant) ensures *r == epoch() { unimplemented!() }
}
pub exec static EPOCH: EpochCell = EpochCell;

// ---- extracted
exec static PRECISION_MICROS: u64 ensures PRECISION_MICROS == 100_000 { 100_000 }

#[derive(Copy, Clone)]
pub struct AckDeadline {
    time: Instant,
}
impl AckDeadline {
    pub closed spec fn t(&self) -> Instant { self.time }
    pub fn new(time: &Instant) -> (r: Self)
        requires epoch().ns() < 0x1_0000_0000_0000_0000, time.ns() >= epoch().ns(), time.ns() - epoch().ns() < 0x1000_0000_0000_0000,
        ensures r.t().ns() + 1000 > time.ns(), r.t().ns() < time.ns() + 100_000_000,
    {
        // Round up to nearest 100th millisecond

        let duration_since_epoch = time.duration_since(*EPOCH);
        let time_in_micros = duration_since_epoch.as_micros() as u64;
        let rounded_in_micros = time_in_micros % PRECISION_MICROS;
        let rounded_time = EPOCH
            .checked_add(Duration::from_micros(time_in_micros + rounded_in_micros))
            .unwrap();
        Self { time: rounded_time }
    }
}
}
fn main() {}
