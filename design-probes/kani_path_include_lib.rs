#![allow(dead_code)]
#[path = "/repo/src/subscriptions/ack_id.rs"]
pub mod ack_id;
#[path = "/repo/src/paging/mod.rs"]
pub mod paging;
pub mod api {
    #[path = "/repo/src/api/page_token.rs"]
    pub mod page_token;
}

pub mod topics {
    #[path = "/repo/src/topics/topic_name.rs"]
    pub mod topic_name;
}
#[cfg(kani)]
mod proofs {
    use super::*;
    #[kani::proof]
    #[kani::unwind(14)]
    fn token_roundtrip() {
        let x: usize = kani::any();
        let t = super::api::page_token::PageToken::new(x);
        let e = t.encode();
        let d = super::api::page_token::PageToken::try_decode(&e);
        assert!(d.is_some());
        let v: usize = d.unwrap().into();
        assert!(v == x);
    }
    #[kani::proof]
    fn ackid_order() {
        let a: u64 = kani::any();
        let b: u64 = kani::any();
        assert_eq!(ack_id::AckId::new(a) < ack_id::AckId::new(b), a < b);
        assert_eq!(ack_id::AckId::new(a) == ack_id::AckId::new(b), a == b);
    }
    #[kani::proof]
    fn paging_size() {
        let s: usize = kani::any();
        let o: Option<usize> = kani::any();
        let p = paging::Paging::new(s, o);
        assert!(p.size() >= 1 && p.size() <= 1000);
        if s >= 1 && s <= 1000 { assert!(p.size() == s); }
        if s == 0 { assert!(p.size() == 20); }
    }
}
