use vstd::prelude::*;
verus! {
pub struct A { x: u64 }
impl A {
    fn inc(&mut self) 
       requires old(self).x < 100 ensures final(self).x == old(self).x + 1 { self.x = self.x + 1; }
    async fn del(&mut self) -> (r: u64) ensures r == 3 { 3 }
    async fn receive(&mut self, req: u8) 
       requires old(self).x < 50
       ensures req == 0 ==> final(self).x == old(self).x + 1
    {
        match req {
            0 => { self.inc(); }
            1 => { let r = self.del().await; }
            _ => {}
        }
    }
}
}
fn main() {}
