#![feature(slice_index_methods)]
use vstd::prelude::*;
use vstd::string::*;
verus! {
// ---------- trusted str contracts over the byte view ----------
pub uninterp spec fn pat<P>(p: P) -> Seq<u8>;
pub broadcast axiom fn pat_char_ascii(c: char) ensures (c as u32) < 128 ==> #[trigger] pat::<char>(c) == seq![c as u8];
pub broadcast axiom fn pat_str(p: &str) ensures #[trigger] pat::<&str>(p) == p.spec_bytes();
pub broadcast axiom fn len_bound(s: &str) ensures #[trigger] s.spec_bytes().len() <= usize::MAX;

pub open spec fn is_prefix(p: Seq<u8>, s: Seq<u8>) -> bool { p.len() <= s.len() && s.subrange(0, p.len() as int) == p }

pub assume_specification<P> [str::starts_with] (s: &str, p: P) -> (r: bool)
    where P: std::str::pattern::Pattern
    ensures r == is_prefix(pat(p), s.spec_bytes());

// find for a single ASCII byte pattern
pub assume_specification<P> [str::find] (s: &str, p: P) -> (r: Option<usize>)
    where P: std::str::pattern::Pattern
    ensures pat(p).len() == 1 ==> (match r {
        Some(i) => i < s.spec_bytes().len() && s.spec_bytes()[i as int] == pat(p)[0]
                    && forall|j: int| 0 <= j < i ==> s.spec_bytes()[j] != pat(p)[0],
        None => forall|j: int| 0 <= j < s.spec_bytes().len() ==> s.spec_bytes()[j] != pat(p)[0],
    });


pub assume_specification<I> [str::get] (s: &str, i: I) -> (o: Option<&<I as core::slice::SliceIndex<str>>::Output>)
    where I: core::slice::SliceIndex<str>
    ensures call_ensures(<I as core::slice::SliceIndex<str>>::get, (i, s), o);


pub open spec fn lead(s: Seq<u8>, c: u8) -> int decreases s.len() {
    if s.len() > 0 && s[0] == c { 1 + lead(s.subrange(1, s.len() as int), c) } else { 0 }
}
pub open spec fn trail(s: Seq<u8>, c: u8) -> int decreases s.len() {
    if s.len() > 0 && s[s.len() - 1] == c { 1 + trail(s.subrange(0, s.len() - 1), c) } else { 0 }
}
pub open spec fn trimmed(s: Seq<u8>, c: u8) -> Seq<u8> {
    if lead(s, c) >= s.len() { Seq::empty() } else { s.subrange(lead(s, c), s.len() - trail(s, c)) }
}
pub assume_specification<P> [str::trim_matches] (s: &str, p: P) -> (r: &str)
    where P: std::str::pattern::Pattern, for<'a> <P as std::str::pattern::Pattern>::Searcher<'a>: std::str::pattern::DoubleEndedSearcher<'a>
    ensures pat(p).len() == 1 ==> r.spec_bytes() == trimmed(s.spec_bytes(), pat(p)[0]);

pub uninterp spec fn bx(b: Box<str>) -> Seq<u8>;
pub assume_specification<'a, 'b> [<Box<str> as From<&'a str>>::from] (s: &'b str) -> (r: Box<str>)
    ensures bx(r) == s.spec_bytes();
const PROJECT_PREFIX: &'static str = "projects/";
const TOPIC_PREFIX: &'static str = "/topics/";
exec const PROJECT_PREFIX_LEN: usize ensures PROJECT_PREFIX_LEN == 9 { PROJECT_PREFIX.len() }
exec const TOPIC_PREFIX_LEN: usize ensures TOPIC_PREFIX_LEN == 8 { TOPIC_PREFIX.len() }

pub closed spec fn pfx() -> Seq<u8> { PROJECT_PREFIX.spec_bytes() }
pub closed spec fn mid() -> Seq<u8> { TOPIC_PREFIX.spec_bytes() }
pub broadcast axiom fn lit_lens() ensures #[trigger] pfx().len() == 9, mid().len() == 8;
pub struct TopicName {
    project_id: Box<str>,
    topic_id: Box<str>,
}
impl TopicName {
    pub closed spec fn p(&self) -> Seq<u8> { bx(self.project_id) }
    pub closed spec fn t(&self) -> Seq<u8> { bx(self.topic_id) }
    pub fn try_parse(unparsed: &str) -> (r: Option<Self>)
        ensures r.is_some() ==> unparsed.spec_bytes() == pfx() + r.unwrap().p() + mid() + r.unwrap().t()
    {
        broadcast use {pat_char_ascii, pat_str, len_bound, lit_lens};
        // Check that the length of the input is at least as long as something that contains
        // a valid topic name.
        if unparsed.len() <= PROJECT_PREFIX_LEN + TOPIC_PREFIX_LEN + 2 {
            return None;
        }

        // Check that we start with the topic prefix.
        if !unparsed.starts_with(PROJECT_PREFIX) {
            return None;
        }

        // Extract the project ID.
        let project_id = unparsed.get(PROJECT_PREFIX_LEN..)?;
        let project_id = project_id.get(..project_id.find('/')?)?;

        // Extract the topic ID
        let start = PROJECT_PREFIX_LEN + project_id.len() + TOPIC_PREFIX_LEN;
        let topic_id = unparsed.get(start..).map(|s| s.trim_matches('/'))?;

        Some(TopicName {
            project_id: project_id.into(),
            topic_id: topic_id.into(),
        })
    }
}
}
fn main() {}
