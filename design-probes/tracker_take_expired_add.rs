#![feature(allocator_api)]
use vstd::prelude::*;
use vstd::std_specs::cmp::*;
use vstd::std_specs::hash::*;
use std::cmp::Ordering;
use std::collections::hash_map::Entry;
use std::collections::{BTreeSet, HashMap};
use std::sync::Arc;

verus! {

broadcast use {vstd::std_specs::hash::group_hash_axioms, vstd::std_specs::btree::group_btree_axioms, ax::axiom_ackid_key_model, ax::axiom_key_cmp, ax::axiom_ackid_cmp};

// ---- prelude stubs (trusted) ----
#[derive(Debug, Copy, Clone, Hash, PartialEq, Eq, PartialOrd, Ord)]
pub struct Instant { ns: u64 }
impl PartialEqSpecImpl for Instant {
    open spec fn obeys_eq_spec() -> bool { true }
    closed spec fn eq_spec(&self, other: &Instant) -> bool { self.ns == other.ns }
}
impl PartialOrdSpecImpl for Instant {
    open spec fn obeys_partial_cmp_spec() -> bool { true }
    closed spec fn partial_cmp_spec(&self, other: &Instant) -> Option<Ordering> {
        PartialOrdSpec::partial_cmp_spec(&self.ns, &other.ns)
    }
}
impl OrdSpecImpl for Instant {
    open spec fn obeys_cmp_spec() -> bool { true }
    closed spec fn cmp_spec(&self, other: &Instant) -> Ordering {
        OrdSpec::cmp_spec(&self.ns, &other.ns)
    }
}

impl Instant { pub closed spec fn v(&self) -> int { self.ns as int } }
pub type Key = (AckDeadline, AckId);
pub struct Notify { x: u8 }
impl Notify {
    #[verifier::external_body]
    pub fn new() -> Self { Notify { x: 0 } }
    #[verifier::external_body]
    pub fn notify_waiters(&self) { }
}
#[derive(Debug)]
pub struct TopicMessage { pub id: u64 }

// ---- extracted ----
#[derive(Debug, Copy, Clone, PartialEq, PartialOrd, Ord, Eq, Hash)]
pub struct AckId {
    value: u64,
}
impl PartialEqSpecImpl for AckId {
    open spec fn obeys_eq_spec() -> bool { true }
    closed spec fn eq_spec(&self, other: &AckId) -> bool { self.value == other.value }
}
impl PartialOrdSpecImpl for AckId {
    open spec fn obeys_partial_cmp_spec() -> bool { true }
    closed spec fn partial_cmp_spec(&self, other: &AckId) -> Option<Ordering> {
        PartialOrdSpec::partial_cmp_spec(&self.value, &other.value)
    }
}
impl OrdSpecImpl for AckId {
    open spec fn obeys_cmp_spec() -> bool { true }
    closed spec fn cmp_spec(&self, other: &AckId) -> Ordering {
        OrdSpec::cmp_spec(&self.value, &other.value)
    }
}
pub mod ax { use super::*;
pub broadcast axiom fn axiom_key_cmp()
    ensures #[trigger] vstd::std_specs::btree::key_obeys_cmp_spec::<Key>();
pub broadcast axiom fn axiom_ackid_cmp()
    ensures #[trigger] vstd::std_specs::btree::key_obeys_cmp_spec::<AckId>();

pub broadcast axiom fn axiom_ackid_key_model()
    ensures #[trigger] obeys_key_model::<AckId>();
}

#[derive(Debug, Copy, Clone, Hash, PartialEq, Eq, PartialOrd, Ord)]
pub struct AckDeadline {
    /// The actual deadline time.
    time: Instant,
}
impl PartialEqSpecImpl for AckDeadline {
    open spec fn obeys_eq_spec() -> bool { true }
    closed spec fn eq_spec(&self, other: &AckDeadline) -> bool { self.time == other.time }
}
impl PartialOrdSpecImpl for AckDeadline {
    open spec fn obeys_partial_cmp_spec() -> bool { true }
    closed spec fn partial_cmp_spec(&self, other: &AckDeadline) -> Option<Ordering> {
        PartialOrdSpec::partial_cmp_spec(&self.time, &other.time)
    }
}
impl OrdSpecImpl for AckDeadline {
    open spec fn obeys_cmp_spec() -> bool { true }
    closed spec fn cmp_spec(&self, other: &AckDeadline) -> Ordering {
        OrdSpec::cmp_spec(&self.time, &other.time)
    }
}

#[derive(Debug, Clone)]
pub struct PulledMessage {
    message: Arc<TopicMessage>,
    ack_id: AckId,
    deadline: AckDeadline,
    delivery_attempt: u16,
}

impl AckId { pub closed spec fn v(&self) -> int { self.value as int } }
impl AckDeadline { pub closed spec fn t(&self) -> Instant { self.time } }
impl PulledMessage { pub closed spec fn id(&self) -> AckId { self.ack_id }
  pub closed spec fn dl(&self) -> AckDeadline { self.deadline } }

pub open spec fn key_lt(a: Key, b: Key) -> bool {
    a.0.t().v() < b.0.t().v() || (a.0.t().v() == b.0.t().v() && a.1.v() < b.1.v())
}
pub open spec fn key_le(a: Key, b: Key) -> bool { key_lt(a, b) || a == b }

impl AckDeadline { pub fn time(&self) -> (r: Instant) ensures r == self.t() { self.time } }
impl PulledMessage {
    pub fn ack_id(&self) -> (r: AckId) ensures r == self.id() {
        self.ack_id
    }
    pub fn deadline(&self) -> (r: &AckDeadline) ensures *r == self.dl() {
        &self.deadline
    }
    pub fn expiration_key(&self) -> (r: (AckDeadline, AckId)) ensures r == (self.dl(), self.id()) {
        (*self.deadline(), self.ack_id)
    }
}

pub(crate) struct OutstandingMessageTracker {
    messages: HashMap<AckId, PulledMessage>,
    expirations: BTreeSet<(AckDeadline, AckId)>,
    notify: Notify,
}


pub open spec fn is_min<T: Ord>(m: T, s: Set<T>) -> bool {
    s.contains(m) && forall|k: T| #[trigger] s.contains(k) ==> OrdSpec::cmp_spec(&m, &k) != Ordering::Greater
}
pub assume_specification<T, A> [std::collections::BTreeSet::<T, A>::first] (s: &std::collections::BTreeSet<T, A>) -> (r: std::option::Option<&T>)
           where
           A: std::alloc::Allocator + std::clone::Clone, T: Ord
    ensures
        r.is_none() <==> s@.len() == 0,
        r.is_some() && T::obeys_cmp_spec() ==> is_min(*r.unwrap(), s@),
;
pub assume_specification<T> [std::option::Option::<T>::unwrap_unchecked] (o: std::option::Option<T>) -> (r: T)
    requires o.is_some()
    ensures r == o.unwrap()
;
pub assume_specification<T, A> [std::collections::BTreeSet::<T, A>::pop_first] (s: &mut std::collections::BTreeSet<T, A>) -> (r: std::option::Option<T>)
            where
            A: std::alloc::Allocator + std::clone::Clone, T: Ord
    ensures
        r.is_none() <==> old(s)@.len() == 0,
        r.is_none() ==> final(s)@ == old(s)@,
        r.is_some() ==> final(s)@ == old(s)@.remove(r.unwrap()) && old(s)@.contains(r.unwrap()),
        r.is_some() && T::obeys_cmp_spec() ==> is_min(r.unwrap(), old(s)@),
;

fn tt(s: &mut BTreeSet<Key>, k: Key)
  ensures final(s)@ == old(s)@.insert(k)
{
    s.insert(k);
}
fn tt1(s: &mut BTreeSet<AckId>, k: AckId)
  ensures final(s)@ == old(s)@.insert(k)
{
    s.insert(k);
}
fn tt2(s: &mut HashMap<AckId, u64>, k: AckId)
  ensures final(s)@ == old(s)@.insert(k, 3)
{
    s.insert(k, 3);
}
proof fn pp() {
  assert(<AckId as OrdSpec>::obeys_cmp_spec());
  assert(<Key as OrdSpec>::obeys_cmp_spec());
}
pub open spec fn taken_ok(r: Seq<PulledMessage>, old: Map<AckId, PulledMessage>, time: Instant) -> bool {
   forall|i: int| 0 <= i < r.len() ==> old.dom().contains(#[trigger] r[i].id()) && old[r[i].id()] == r[i] && r[i].dl().t().v() <= time.v()
}
impl OutstandingMessageTracker {
    pub closed spec fn wf(&self) -> bool {
        &&& forall|id: AckId| self.messages@.dom().contains(id) ==>
              self.messages@[id].ack_id == id && self.expirations@.contains((self.messages@[id].deadline, id))
        &&& forall|k: Key| self.expirations@.contains(k) ==>
              self.messages@.dom().contains(k.1) && self.messages@[k.1].deadline == k.0
    }
    pub closed spec fn view(&self) -> Map<AckId, PulledMessage> { self.messages@ }

    pub fn new() -> (r: Self)
        ensures r.wf(), r@ == Map::<AckId, PulledMessage>::empty()
    {
        Self {
            messages: HashMap::new(),
            expirations: BTreeSet::new(),
            notify: Notify::new(),
        }
    }

    pub fn add(&mut self, message: PulledMessage)
        requires old(self).wf(), !old(self)@.dom().contains(message.id())
        ensures final(self).wf(), final(self)@ == old(self)@.insert(message.id(), message)
    {
        let expiration_key = (*message.deadline(), message.ack_id());
        self.messages.insert(message.ack_id(), message);

        let should_notify = self
            .expirations
            .first()
            .map(|e| &expiration_key < e)
            .unwrap_or(false);

        self.expirations.insert(expiration_key);

        if should_notify {
            self.notify.notify_waiters();
        }
    }

    pub fn take_expired(&mut self, time: &Instant) -> (result: Vec<PulledMessage>)
        requires old(self).wf()
        ensures final(self).wf(),
            // exactly the entries with deadline <= time were removed
            forall|id: AckId| final(self)@.dom().contains(id) <==> (old(self)@.dom().contains(id) && time.v() < old(self)@[id].dl().t().v()),
            forall|id: AckId| final(self)@.dom().contains(id) ==> final(self)@[id] == old(self)@[id],
            taken_ok(result@, old(self)@, *time),
            result.len() + final(self)@.dom().len() == old(self)@.dom().len(),
    {
        let mut result = Vec::new();
        while let Some(key) = self.expirations.first()
            invariant self.wf(),
                forall|id: AckId| self@.dom().contains(id) ==> old(self)@.dom().contains(id) && self@[id] == old(self)@[id],
                forall|id: AckId| old(self)@.dom().contains(id) && !self@.dom().contains(id) ==> old(self)@[id].dl().t().v() <= time.v(),
                taken_ok(result@, old(self)@, *time),
                result.len() + self@.dom().len() == old(self)@.dom().len(),
            ensures self.expirations@.len() == 0,
            decreases self.expirations@.len()
        {
            // If the time has not elapsed, then we are done since the expirations are ordered.
            if time < &key.0.time() {
                return result;
            }

            // Take the expiration.
            // SAFETY: We know it exists because we just tested it above.
            let (_, ack_id) = unsafe { self.expirations.pop_first().unwrap_unchecked() };

            // Remove the message from the map.
            // SAFETY: We know the message exists because we track both side by side.
            let message = unsafe { self.messages.remove(&ack_id).unwrap_unchecked() };

            // Add the message to the result.
            result.push(message);
        }
        proof { self.expirations@.lemma_len0_is_empty(); }

        result
    }
    pub fn next_expiration(&self) -> Option<AckDeadline> {
        self.expirations.first().map(|s| s.0)
    }
}

}
fn main() {}
