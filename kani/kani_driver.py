"""Kani harnesses on the real source files (mounted by #[path]); thorough tier only.
complete = loop-free harness over the full input domain (a proof); bounded = stated bound, never counted as proved."""
import hashlib
import os
import re
import shutil
import subprocess
import time

HARNESSES = {
    # name: (properties, kind, what)
    "derive_ackid_order": (["C02", "C03", "C04", "C05"], "complete", "A-DERIVE: derived PartialEq/PartialOrd/Ord of AckId compare the u64 value, all u64 pairs"),
    "derive_expiry_key_order": (["C02", "C04", "C05"], "complete", "A-DERIVE: derived Ord of (AckDeadline, AckId) is lexicographic, all pairs (shim Instant)"),
    "message_id_injective_monotone": (["C08", "C09"], "complete", "MessageId::new injective on (u32,u32) and monotone in the counter"),
    "paging_rules": (["C13"], "complete", "Paging::new normalisation and next_page_from_slice_result offset rule, all usize (page length <= 3)"),
}


def run_for(prop, HERE, REPO):
    names = [h for h, (ps, _, _) in HARNESSES.items() if prop in ps]
    res = {"harnesses": [], "violations": [], "undecided": []}
    if not names:
        return res
    key = hashlib.sha1(REPO.encode()).hexdigest()[:8]
    work = os.path.join(HERE, ".work", "kani_" + key)
    os.makedirs(os.path.join(work, "src"), exist_ok=True)
    open(os.path.join(work, "Cargo.toml"), "w").write(open(os.path.join(HERE, "kani", "Cargo.toml.in")).read().replace("@HERE@", HERE))
    open(os.path.join(work, "src", "lib.rs"), "w").write(open(os.path.join(HERE, "kani", "src", "lib.rs.in")).read().replace("@REPO@", REPO))
    if os.path.exists(os.path.join(REPO, "Cargo.lock")):
        shutil.copy(os.path.join(REPO, "Cargo.lock"), os.path.join(work, "Cargo.lock"))
    env = dict(os.environ, CARGO_NET_OFFLINE="true")
    for h in names:
        t0 = time.time()
        try:
            p = subprocess.run(["cargo", "kani", "--harness", h], cwd=work, env=env, capture_output=True, text=True, timeout=900)
            out = p.stdout + p.stderr
        except subprocess.TimeoutExpired:
            res["harnesses"].append({"harness": h, "kind": HARNESSES[h][1], "result": "timeout", "what": HARNESSES[h][2]})
            continue
        ok = "VERIFICATION:- SUCCESSFUL" in out
        failed = "VERIFICATION:- FAILED" in out
        m = re.search(r"\*\* (\d+) of (\d+) failed", out)
        res["harnesses"].append({"harness": h, "kind": HARNESSES[h][1], "what": HARNESSES[h][2],
                                 "result": "successful" if ok else ("failed" if failed else "error"),
                                 "checks": int(m.group(2)) if m else None, "wall_s": round(time.time() - t0, 1)})
        if failed:
            lines = [l for l in out.splitlines() if "Status: FAILURE" in l or "Description:" in l][:6]
            res["violations"].append({"obligation": "kani/%s" % h, "tags": [prop], "clause": HARNESSES[h][2], "repo_span": None,
                                      "message": "Kani harness failed (%s)" % HARNESSES[h][1], "rendered": "\n".join(lines), "bundle": "kani", "fn": None})
        elif not ok:
            res["undecided"].append("kani harness %s did not reach a verdict: %s" % (h, out[-300:]))
    return res
