//! Shim with the surface of tokio that src/subscriptions/{pulled_message,outstanding}.rs use (Kani has no async runtime).
//! Instant = nanoseconds since an arbitrary origin.
pub mod time {
    use std::time::Duration;
    #[derive(Debug, Copy, Clone, Hash, PartialEq, Eq, PartialOrd, Ord)]
    pub struct Instant { pub ns: u64 }
    impl Instant {
        pub fn now() -> Instant { Instant { ns: 0 } }
        pub fn duration_since(&self, earlier: Instant) -> Duration {
            Duration::from_nanos(self.ns.saturating_sub(earlier.ns))
        }
        pub fn checked_add(&self, d: Duration) -> Option<Instant> {
            let n = d.as_nanos();
            if n > u64::MAX as u128 { return None; }
            self.ns.checked_add(n as u64).map(|ns| Instant { ns })
        }
    }
    impl std::ops::Add<Duration> for Instant {
        type Output = Instant;
        fn add(self, d: Duration) -> Instant { self.checked_add(d).expect("overflow") }
    }
}
pub mod sync {
    pub struct Notify;
    impl Notify {
        pub fn new() -> Self { Notify }
        pub fn notify_waiters(&self) {}
        pub fn notify_one(&self) {}
    }
}
