//! Replay / witness-search crate (see DESIGN.md §3): drives the REAL deltio crate (path dependency on /repo)
//! and compares it with executable mirrors of the contract postconditions.
//!
//!   deltio-replay history <seed> <iters> <steps>    random histories on one subscription vs the layer-2 model
//!   deltio-replay names <maxlen>                    name strings near the fixed segments vs the C18 grammar
//!   deltio-replay paging <n>                        page walks over n resources in 2 projects vs the C13 walk lemma
//!   deltio-replay run-history '<json ops>'          re-run one stored history
//!
//! Output: one line `WITNESS <json>` for the first divergence found (exit 1), or `NO-WITNESS <stats>` (exit 0).
mod rpc;
mod mounted;
use bytes::Bytes;
use deltio::paging::Paging;
use deltio::subscriptions::subscription_manager::SubscriptionManager;
use deltio::subscriptions::*;
use deltio::topics::topic_manager::TopicManager;
use deltio::topics::*;
use std::collections::BTreeMap;
use std::sync::Arc;
use std::time::Duration;
use tokio::time::Instant;

// ------------------------------------------------------------------------------------------------
// tiny deterministic RNG (xorshift) so that VERIF_SEED reproduces a run
struct Rng(u64);
impl Rng {
    fn next(&mut self) -> u64 {
        let mut x = self.0;
        x ^= x << 13;
        x ^= x >> 7;
        x ^= x << 17;
        self.0 = x;
        x
    }
    fn below(&mut self, n: u64) -> u64 { self.next() % n }
}

#[derive(Clone, Debug)]
enum Op {
    Publish(u8),
    Pull(u16),
    Ack(Vec<u64>),
    Modify(Vec<(u64, i32)>),
    AdvanceMs(u64),
    /// a consumer sends a pull for up to 1000 messages and goes away before the answer (the request stays in the mailbox)
    AbandonedPull,
    /// move to 1 ms before / 1 s after the earliest deadline
    ProbeBefore,
    ProbeAfter,
    /// DeleteTopic, and every handle to the topic is dropped: the subscription keeps serving what it holds (C11)
    DeleteTopic,
    /// shortly before the earliest deadline every lease is acknowledged in a call of its own (no other request in
    /// between), then the clock crosses the deadline: "once Acknowledge has returned ... never delivered again"
    AckEachThenCross,
}

fn op_to_json(op: &Op) -> String {
    match op {
        Op::Publish(n) => format!("[\"publish\",{}]", n),
        Op::Pull(m) => format!("[\"pull\",{}]", m),
        Op::Ack(ids) => format!("[\"ack\",[{}]]", ids.iter().map(|i| i.to_string()).collect::<Vec<_>>().join(",")),
        Op::Modify(ms) => format!("[\"modify\",[{}]]", ms.iter().map(|(i, s)| format!("[{},{}]", i, s)).collect::<Vec<_>>().join(",")),
        Op::AdvanceMs(ms) => format!("[\"advance_ms\",{}]", ms),
        Op::AbandonedPull => "[\"abandoned_pull\"]".to_string(),
        Op::ProbeBefore => "[\"probe_before\"]".to_string(),
        Op::ProbeAfter => "[\"probe_after\"]".to_string(),
        Op::AckEachThenCross => "[\"ack_each_then_cross\"]".to_string(),
        Op::DeleteTopic => "[\"delete_topic\"]".to_string(),
    }
}
fn ops_to_json(ops: &[Op]) -> String { format!("[{}]", ops.iter().map(op_to_json).collect::<Vec<_>>().join(",")) }

/// minimal parser for the JSON produced above
fn parse_ops(s: &str) -> Vec<Op> {
    let mut ops = Vec::new();
    let toks: Vec<String> = {
        let mut v = Vec::new();
        let mut cur = String::new();
        for ch in s.chars() {
            match ch {
                '[' | ']' | ',' => { if !cur.is_empty() { v.push(cur.clone()); cur.clear(); } v.push(ch.to_string()); }
                '"' | ' ' | '\n' => {}
                c => cur.push(c),
            }
        }
        v
    };
    let mut i = 0;
    let num = |t: &str| t.parse::<i64>().unwrap();
    while i < toks.len() {
        match toks[i].as_str() {
            "publish" => { ops.push(Op::Publish(num(&toks[i + 2]) as u8)); i += 3; }
            "pull" => { ops.push(Op::Pull(num(&toks[i + 2]) as u16)); i += 3; }
            "advance_ms" => { ops.push(Op::AdvanceMs(num(&toks[i + 2]) as u64)); i += 3; }
            "abandoned_pull" => { ops.push(Op::AbandonedPull); i += 1; }
            "probe_before" => { ops.push(Op::ProbeBefore); i += 1; }
            "probe_after" => { ops.push(Op::ProbeAfter); i += 1; }
            "ack_each_then_cross" => { ops.push(Op::AckEachThenCross); i += 1; }
            "delete_topic" => { ops.push(Op::DeleteTopic); i += 1; }
            "ack" => {
                let mut ids = Vec::new();
                i += 3; // , [
                while toks[i] != "]" { if toks[i] != "," { ids.push(num(&toks[i]) as u64); } i += 1; }
                ops.push(Op::Ack(ids));
            }
            "modify" => {
                let mut ms = Vec::new();
                i += 3;
                while toks[i] != "]" {
                    if toks[i] == "[" { ms.push((num(&toks[i + 1]) as u64, num(&toks[i + 3]) as i32)); i += 5; } else { i += 1; }
                }
                ops.push(Op::Modify(ms));
            }
            _ => { i += 1; }
        }
    }
    ops
}

/// executable mirror of the layer-2 subscription view, used as a PROPERTY-level oracle:
/// every divergence is tagged with the property whose statement it contradicts
struct Model {
    pending: Vec<u64>,                      // messages available for delivery (order of first deliveries is checked separately)
    leases: BTreeMap<u64, (u64, Instant)>,  // ack id -> (message id, deadline)
    ghosts: Vec<(u64, Instant, Instant)>,   // leases of an abandoned pull: (message id, earliest, latest possible deadline)
    used_ack_ids: Vec<u64>,
    acked: Vec<u64>,
    published: Vec<u64>,                    // publish order
    delivered_once: Vec<u64>,
}
impl Model {
    fn expire(&mut self, now: Instant) {
        let exp: Vec<u64> = self.leases.iter().filter(|(_, (_, d))| *d <= now).map(|(a, _)| *a).collect();
        for a in exp { let (m, _) = self.leases.remove(&a).unwrap(); self.pending.push(m); }
        let mut keep = Vec::new();
        for g in self.ghosts.drain(..) { if g.2 <= now { self.pending.push(g.0); } else { keep.push(g); } }
        self.ghosts = keep;
    }
    fn earliest(&self) -> Option<Instant> { self.leases.values().map(|(_, d)| *d).chain(self.ghosts.iter().map(|g| g.2)).min() }
    /// is `t` inside a window in which the model cannot know whether a lease has expired yet
    fn uncertain(&self, t: Instant) -> bool { self.uncertain_drift(t, 8) }
    /// `drift_ms`: how far the clock may still move during the step (settling sleeps)
    fn uncertain_drift(&self, t: Instant, drift_ms: u64) -> bool {
        self.leases.values().any(|(_, dl)| t + Duration::from_millis(drift_ms) >= *dl && t <= *dl + Duration::from_millis(1000))
            || self.ghosts.iter().any(|g| t + Duration::from_millis(drift_ms) >= g.1 && t <= g.2 + Duration::from_millis(1000))
    }
}
pub struct Fail { pub prop: &'static str, pub what: String }
/// "C10+C11" -> "\"property\":\"C10\",\"also\":[\"C11\"]"
pub fn prop_json(p: &str) -> String {
    let mut it = p.split('+');
    let first = it.next().unwrap_or("");
    let rest: Vec<String> = it.map(|x| format!("\"{}\"", x)).collect();
    format!("\"property\":\"{}\",\"also\":[{}]", first, rest.join(","))
}

/// VERIF_PROP=<id>: the random searches keep going past inputs on which the code contradicts only OTHER properties
/// (the first such input is still reported, at the end), so that one defect does not hide a witness for the
/// property the caller asks about
pub fn wanted(prop: &str) -> bool {
    match std::env::var("VERIF_PROP") { Ok(p) if !p.is_empty() => prop.split('+').any(|x| x == p), _ => true }
}

/// polls a future exactly once
async fn futures_poll_once<F: std::future::Future>(mut f: std::pin::Pin<&mut F>) -> Option<F::Output> {
    std::future::poll_fn(|cx| std::task::Poll::Ready(match f.as_mut().poll(cx) { std::task::Poll::Ready(v) => Some(v), std::task::Poll::Pending => None })).await
}
async fn settle() {
    // let the actor task run: timers (1 ms granularity) and mailbox
    tokio::time::sleep(Duration::from_millis(3)).await;
    for _ in 0..5 { tokio::task::yield_now().await; }
}

async fn run_history(ops: &[Op], ack_deadline_s: u64, uptime_days: u64) -> Result<(), Fail> {
    let setup = |w: &str| Fail { prop: "SETUP", what: w.to_string() };
    // the server has been up for a while: deadlines are computed relative to a process-wide epoch
    if uptime_days > 0 { tokio::time::advance(Duration::from_secs(uptime_days * 86_400) + Duration::from_millis(37)).await; }
    let topic_manager = TopicManager::new();
    let subscription_manager = SubscriptionManager::new(Default::default());
    let topic = topic_manager.create_topic(TopicName::new("p", "t")).map_err(|_| setup("create topic"))?;
    let mut topic = Some(topic);
    let info = SubscriptionInfo::new(SubscriptionName::new("p", "s"), Duration::from_secs(ack_deadline_s), None);
    let sub = subscription_manager.create_subscription(info, Arc::clone(topic.as_ref().unwrap())).await.map_err(|_| setup("create sub"))?;
    // a second subscription on the same topic: its copy must be untouched by everything done to the first (C02) and
    // must receive every message as well (C01)
    let info2 = SubscriptionInfo::new(SubscriptionName::new("p", "s2"), Duration::from_secs(600), None);
    let sub2 = subscription_manager.create_subscription(info2, Arc::clone(topic.as_ref().unwrap())).await.map_err(|_| setup("create sub2"))?;
    let d = Duration::from_secs(ack_deadline_s);
    let mut m = Model { pending: Vec::new(), leases: BTreeMap::new(), ghosts: Vec::new(), used_ack_ids: Vec::new(), acked: Vec::new(), published: Vec::new(), delivered_once: Vec::new() };
    let mut payload = 0u32;
    let mut ghost_era = false;
    let mut modified_any = false;
    for (k, op) in ops.iter().enumerate() {
        let fail = |prop: &'static str, what: String| Err(Fail { prop, what: format!("step {} {}: {}", k, op_to_json(op), what) });
        let stats_tag: &'static str;
        match op {
            Op::DeleteTopic => {
                stats_tag = "C11";
                if let Some(t) = topic.take() {
                    if t.delete().await.is_err() { return fail("C11", "DeleteTopic failed".into()); }
                    drop(t);
                    for _ in 0..5 { tokio::task::yield_now().await; }
                }
            }
            Op::Publish(n) => {
                stats_tag = "C01";
                let topic = match topic.as_ref() { Some(t) => t, None => continue };
                let msgs = (0..*n).map(|_| { payload += 1; TopicMessage::new(Bytes::from(payload.to_be_bytes().to_vec()), None) }).collect::<Vec<_>>();
                let resp = topic.publish_messages(msgs).await.map_err(|_| setup("publish"))?;
                if resp.message_ids.len() != *n as usize { return fail("C08", format!("publish returned {} ids for {} messages", resp.message_ids.len(), n)); }
                for w in resp.message_ids.windows(2) { if w[0].value >= w[1].value { return fail("C08", "message ids of one request not strictly increasing".into()); } }
                for id in resp.message_ids {
                    if let Some(last) = m.published.last() { if *last >= id.value { return fail("C08", format!("message id {} not above the previously issued {}", id.value, last)); } }
                    if m.published.contains(&id.value) { return fail("C09", format!("message id {} issued twice", id.value)); }
                    m.published.push(id.value);
                    m.pending.push(id.value);
                }
            }
            Op::Pull(max) => {
                stats_tag = "C03";
                let now = Instant::now();
                m.expire(now);
                let pulled = sub.pull_messages(*max).await.map_err(|_| setup("pull"))?;
                if *max >= 1 && pulled.len() > *max as usize { return fail("C15", format!("pull({}) returned {} messages", max, pulled.len())); }
                if *max >= 1 && pulled.is_empty() && !m.pending.is_empty() { return fail("C15", format!("pull({}) returned nothing although {} messages are available", max, m.pending.len())); }
                let mut seen_here = Vec::new();
                for p in pulled.iter() {
                    let id = p.message().id.value;
                    if seen_here.contains(&id) { return fail("C03", format!("message {} twice in one response", id)); }
                    seen_here.push(id);
                    if m.acked.contains(&id) { return fail("C02", format!("acknowledged message {} delivered again", id)); }
                    if m.leases.values().any(|(x, _)| *x == id) || m.ghosts.iter().any(|g| g.0 == id) { return fail("C03", format!("message {} handed out while its previous delivery is still outstanding", id)); }
                    let pos = match m.pending.iter().position(|x| *x == id) { Some(p) => p, None => return fail("C01", format!("message {} delivered but was never published to this subscription / not pending", id)) };
                    let aid: u64 = p.ack_id().to_string().parse().unwrap();
                    if m.used_ack_ids.contains(&aid) { return fail("C03+C02", format!("ack id {} was used before on this subscription", aid)); }
                    let dl = p.deadline().time();
                    if dl < now + d { return fail("C04", format!("deadline {:?} before hand-out + ack deadline", (now + d).duration_since(dl))); }
                    if dl >= now + d + Duration::from_millis(1000) { return fail("C04", format!("deadline {:?} later than hand-out + ack deadline + 1 s", dl.duration_since(now + d))); }
                    if !m.delivered_once.contains(&id) {
                        // C08: first deliveries follow publish order
                        for e in m.published.iter() { if *e == id { break; } if !m.delivered_once.contains(e) { return fail("C08", format!("first delivery of {} before earlier published {}", id, e)); } }
                        m.delivered_once.push(id);
                    }
                    m.pending.remove(pos);
                    m.used_ack_ids.push(aid);
                    m.leases.insert(aid, (id, dl));
                }
            }
            Op::Ack(ids) => {
                stats_tag = "C02";
                let now = Instant::now();
                m.expire(now);
                let ids: Vec<u64> = ids.iter().map(|i| if ghost_era && !m.used_ack_ids.contains(i) { *i + 1_000_000 } else { *i }).collect();
                let ids = &ids;
                sub.acknowledge_messages(ids.iter().map(|i| AckId::new(*i)).collect()).await.map_err(|_| setup("ack"))?;
                for i in ids { if let Some((mid, _)) = m.leases.remove(i) { m.acked.push(mid); } }
            }
            Op::Modify(ms) => {
                stats_tag = "C05";
                modified_any = true;
                let now = Instant::now();
                m.expire(now);
                let ms: Vec<(u64, i32)> = ms.iter().map(|(i, s)| if ghost_era && !m.used_ack_ids.contains(i) { (*i + 1_000_000, *s) } else { (*i, *s) }).collect();
                let ms = &ms;
                let mods = ms.iter().map(|(i, s)| {
                    if *s == 0 { DeadlineModification::nack(AckId::new(*i)) } else {
                        let secs = (*s).min(600) as u64;
                        DeadlineModification::new(AckId::new(*i), AckDeadline::new(&(now + Duration::from_secs(secs))))
                    }
                }).collect::<Vec<_>>();
                let expect: Vec<(u64, Option<Instant>)> = ms.iter().map(|(i, s)| (*i, if *s == 0 { None } else { Some(AckDeadline::new(&(now + Duration::from_secs((*s).min(600) as u64))).time()) })).collect();
                sub.modify_ack_deadlines(mods).await.map_err(|_| setup("modify"))?;
                for (i, nd) in expect {
                    if let Some((mid, _)) = m.leases.get(&i).cloned() {
                        match nd { Some(t) => { m.leases.insert(i, (mid, t)); } None => { m.leases.remove(&i); m.pending.push(mid); } }
                    }
                }
            }
            Op::AdvanceMs(ms) => {
                stats_tag = "C04";
                // never stop close to a deadline: the timer wheel has 1 ms granularity and the select order is random
                let mut target = Instant::now() + Duration::from_millis(*ms);
                while m.uncertain(target) { target += Duration::from_millis(253); }
                tokio::time::advance(target - Instant::now()).await;
                settle().await;
                m.expire(Instant::now());
            }
            Op::AbandonedPull => {
                stats_tag = "C03+C16";
                let now = Instant::now();
                m.expire(now);
                if m.uncertain(now) { continue; }
                ghost_era = true;
                {
                    let fut = sub.pull_messages(1000);
                    tokio::pin!(fut);
                    // one poll puts the request into the actor's mailbox; then the consumer disappears
                    let _ = futures_poll_once(fut.as_mut()).await;
                }
                for _ in 0..5 { tokio::task::yield_now().await; }
                // whatever was pending is now leased to nobody in particular until the ack deadline passes
                let taken: Vec<u64> = m.pending.drain(..).collect();
                for id in taken {
                    if !m.delivered_once.contains(&id) { m.delivered_once.push(id); }
                    m.ghosts.push((id, now + d, now + d + Duration::from_millis(100)));
                }
            }
            Op::ProbeBefore => {
                stats_tag = "C04";
                let lower = m.leases.values().map(|(_, d)| *d).chain(m.ghosts.iter().map(|g| g.1)).min();
                if let Some(dl) = lower {
                    // 1 ms before the earliest deadline: nothing may have been requeued yet (C04 "not before")
                    let target = dl - Duration::from_millis(1);
                    if target > Instant::now() && !m.uncertain_drift(target, 0) {
                        tokio::time::advance(target - Instant::now()).await;
                        for _ in 0..5 { tokio::task::yield_now().await; }
                        m.expire(Instant::now());
                    }
                }
            }
            Op::AckEachThenCross => {
                stats_tag = "C02";
                let now = Instant::now();
                m.expire(now);
                if let Some(dl) = m.leases.values().map(|(_, d)| *d).min() {
                    if m.ghosts.is_empty() && dl > now + Duration::from_millis(600) && !m.uncertain_drift(dl - Duration::from_millis(500), 0) {
                        tokio::time::advance(dl - Duration::from_millis(500) - now).await;
                        for _ in 0..5 { tokio::task::yield_now().await; }
                        m.expire(Instant::now());
                        let ids: Vec<u64> = m.leases.keys().cloned().collect();
                        for i in ids.iter() {
                            // each Acknowledge call has RETURNED before the next one is made
                            sub.acknowledge_messages(vec![AckId::new(*i)]).await.map_err(|_| setup("ack"))?;
                        }
                        for i in ids.iter() { if let Some((mid, _)) = m.leases.remove(i) { m.acked.push(mid); } }
                        tokio::time::advance(Duration::from_millis(1500)).await;
                        settle().await;
                        m.expire(Instant::now());
                    }
                }
            }
            Op::ProbeAfter => {
                stats_tag = "C04";
                if let Some(dl) = m.earliest() {
                    // the statement allows "a fixed sub-second slack" after the deadline: probe 1 s + 5 ms after it
                    let mut target = dl + Duration::from_millis(1005);
                    while m.uncertain(target) { target += Duration::from_millis(253); }
                    if target > Instant::now() {
                        tokio::time::advance(target - Instant::now()).await;
                        settle().await;
                        m.expire(Instant::now());
                    }
                }
            }
        }
        // observable state after every turn
        let stats = sub.get_stats().await.map_err(|_| setup("stats"))?;
        if stats.outstanding_messages_count != m.leases.len() + m.ghosts.len() || stats.backlog_messages_count != m.pending.len() {
            // a message held nowhere is lost: it can no longer be redelivered (C01 "until acknowledged", C04 "becomes available
            // for redelivery"); anything else is attributed to the kind of step that produced it
            let (have, want) = (stats.outstanding_messages_count + stats.backlog_messages_count, m.leases.len() + m.ghosts.len() + m.pending.len());
            // ... and a message held TWICE (more messages than were ever handed over) can be leased to two consumers at once (C03)
            let mut tag = if have < want { match (stats_tag, topic.is_none()) { ("C02", _) => "C02+C01+C04", ("C05", _) => "C05+C01+C04", (_, true) => "C11+C01+C04", _ => "C01+C04" } } else if have > want { match stats_tag { "C05" => "C05+C03+C02", "C04" => "C04+C03+C02", "C02" => "C02+C03", "C01" => "C01+C03+C02", "C03+C16" => "C03+C04+C02+C16", _ => "C03+C02" } } else { stats_tag };
            if have == want && stats.outstanding_messages_count < m.leases.len() + m.ghosts.len() && stats_tag == "C04" {
                // a lease was requeued although its (possibly extended) deadline has not passed: early (C04 "never earlier") and,
                // for the consumer holding it, no longer exclusive (C03)
                tag = "C04+C03+C05";
            }
            if have == want && stats.outstanding_messages_count > m.leases.len() + m.ghosts.len() {
                // a lease that should have been requeued is still outstanding: late (C04) - or stuck for good, in which case
                // the message is never redelivered (C01)? Every deadline is at most 600 s away; look again after 700 s.
                tokio::time::advance(Duration::from_secs(700)).await;
                settle().await;
                if let Ok(later) = sub.get_stats().await { if later.outstanding_messages_count > 0 { tag = if modified_any { "C04+C01+C05" } else { "C04+C01" }; } }
            }
            return fail(tag, format!("stats outstanding/backlog = {}/{}, expected {}/{}", stats.outstanding_messages_count, stats.backlog_messages_count, m.leases.len() + m.ghosts.len(), m.pending.len()));
        }
        let stats2 = sub2.get_stats().await.map_err(|_| setup("stats"))?;
        if stats2.outstanding_messages_count != 0 || stats2.backlog_messages_count != m.published.len() {
            return fail(if stats_tag == "C01" { "C01" } else { "C02" }, format!("second subscription of the topic holds {}/{} (outstanding/backlog), expected 0/{}", stats2.outstanding_messages_count, stats2.backlog_messages_count, m.published.len()));
        }
    }
    // drain: every message not acknowledged is still deliverable (C01), acknowledged ones never come back (C02)
    tokio::time::advance(Duration::from_secs(700)).await;
    settle().await;
    m.expire(Instant::now());
    let mut seen = Vec::new();
    loop {
        let pulled = sub.pull_messages(1000).await.map_err(|_| setup("pull"))?;
        if pulled.is_empty() { break; }
        for p in pulled { seen.push(p.message().id.value); }
    }
    for id in seen.iter() { if m.acked.contains(id) { return Err(Fail { prop: "C02", what: format!("final drain: acknowledged message {} delivered again", id) }); } }
    let mut want: Vec<u64> = m.pending.clone();
    let mut got = seen.clone();
    want.sort(); got.sort();
    if want != got { return Err(Fail { prop: "C01", what: format!("final drain: deliverable messages {:?}, expected {:?}", got, want) }); }
    Ok(())
}

fn gen_ops(rng: &mut Rng, steps: usize) -> Vec<Op> {
    let mut ops = Vec::new();
    let mut next_ack_guess = 1u64;
    for _ in 0..steps {
        let op = match rng.below(12) {
            0 | 1 => Op::Publish(if rng.below(12) == 0 { 100 + rng.below(150) as u8 } else { 1 + rng.below(3) as u8 }),
            2 | 3 | 4 => { let mx = [0u16, 1, 1, 2, 3, 10, 1000][rng.below(7) as usize]; next_ack_guess += 2; Op::Pull(mx) }
            5 | 6 => { let n = 1 + rng.below(4); Op::Ack((0..n).map(|_| { let id = 1 + rng.below(next_ack_guess.min(12) + 2);
                // now and then a never-issued id that equals a small id modulo 2^16 / 2^32: must be ignored like any unknown id
                match rng.below(8) { 0 => id + (1u64 << 32), 1 => id + (1u64 << 16), _ => id } }).collect()) }
            7 | 8 => { let n = 1 + rng.below(4); Op::Modify((0..n).map(|_| (1 + rng.below(next_ack_guess.min(12) + 2), [0, 0, 1, 5, 30, 599, 600, 700][rng.below(8) as usize])).collect()) }
            9 => Op::AdvanceMs([50u64, 1000, 5000, 9990, 10_050, 30_000][rng.below(6) as usize]),
            10 => match rng.below(5) { 0 => Op::AbandonedPull, 1 => Op::AckEachThenCross, 2 => Op::DeleteTopic, _ => Op::ProbeBefore },
            _ => Op::ProbeAfter,
        };
        ops.push(op);
    }
    ops
}

fn rt() -> tokio::runtime::Runtime {
    tokio::runtime::Builder::new_current_thread().enable_all().start_paused(true).build().unwrap()
}

fn cmd_history(seed: u64, iters: usize, steps: usize) -> i32 {
    let mut rng = Rng(seed.wrapping_mul(0x9E3779B97F4A7C15) | 1);
    let mut other: Option<String> = None;
    for it in 0..iters {
        let ops = gen_ops(&mut rng, steps);
        let d = [10u64, 10, 12, 20][rng.below(4) as usize];
        let up = [0u64, 0, 1, 30, 400][rng.below(5) as usize];
        if std::env::var("VERIF_ISOLATE").is_ok() {
            // every history in a process of its own: a history on which the real crate aborts the process (e.g. a violated
            // `unsafe` precondition) is reported instead of taking the whole search down
            let out = std::process::Command::new(std::env::current_exe().unwrap()).env_remove("VERIF_ISOLATE")
                .args(["run-history", &d.to_string(), &ops_to_json(&ops), &up.to_string()]).output();
            if let Ok(o) = out {
                let txt = String::from_utf8_lossy(&o.stdout).to_string();
                if let Some(l) = txt.lines().find(|l| l.starts_with("WITNESS ")) {
                    let prop = l.split("\"property\":\"").nth(1).and_then(|x| x.split('"').next()).unwrap_or("").to_string();
                    let also: Vec<String> = l.split("\"also\":[").nth(1).and_then(|x| x.split(']').next()).unwrap_or("").split(',').map(|x| x.trim_matches('"').to_string()).collect();
                    let mine = match std::env::var("VERIF_PROP") { Ok(p) if !p.is_empty() => prop == p || also.contains(&p), _ => true };
                    if mine { println!("{}", l); return 1; }
                    if other.is_none() { other = Some(l.to_string()); }
                } else if !txt.contains("NO-WITNESS") {
                    let l = format!("WITNESS {{\"kind\":\"history\",\"property\":\"C17\",\"also\":[],\"ack_deadline_s\":{},\"uptime_days\":{},\"ops\":{},\"observed\":{:?},\"iteration\":{}}}", d, up, ops_to_json(&ops),
                        format!("the process running the real crate died on this history ({:?}): {}", o.status, String::from_utf8_lossy(&o.stderr).lines().filter(|x| x.contains("panicked") || x.contains("unsafe precondition") || x.contains("abort")).next().unwrap_or("")), it);
                    if wanted("C17") { println!("{}", l); return 1; }
                    if other.is_none() { other = Some(l); }
                }
            }
            continue;
        }
        if let Err(e) = rt().block_on(run_history(&ops, d, up)) {
            if !wanted(e.prop) {
                if other.is_none() { other = Some(format!("WITNESS {{\"kind\":\"history\",{},\"ack_deadline_s\":{},\"uptime_days\":{},\"ops\":{},\"observed\":{:?},\"iteration\":{}}}", prop_json(e.prop), d, up, ops_to_json(&ops), e.what, it)); }
                continue;
            }
            // shrink: drop ops while it still fails for the same property
            let mut cur = ops.clone();
            let mut i = 0;
            while i < cur.len() {
                let mut t = cur.clone();
                t.remove(i);
                match rt().block_on(run_history(&t, d, up)) { Err(f) if f.prop == e.prop => { cur = t; } _ => { i += 1; } }
            }
            let e2 = rt().block_on(run_history(&cur, d, up)).err().unwrap_or(e);
            println!("WITNESS {{\"kind\":\"history\",{},\"ack_deadline_s\":{},\"uptime_days\":{},\"ops\":{},\"observed\":{:?},\"iteration\":{}}}", prop_json(e2.prop), d, up, ops_to_json(&cur), e2.what, it);
            return 1;
        }
    }
    if let Some(o) = other { println!("{}", o); return 1; }
    println!("NO-WITNESS histories={} steps={}", iters, steps);
    0
}

// ------------------------------------------------------------------------------------------------
// C18 reference grammar
fn ref_parse(s: &str, mid: &str) -> Option<(String, String)> {
    let rest = s.strip_prefix("projects/")?;
    let i = rest.find('/')?;
    let p = &rest[..i];
    let tail = rest[i..].strip_prefix(mid)?;
    let t = tail.trim_matches('/');
    if p.is_empty() || t.is_empty() { return None; }
    Some((p.to_string(), t.to_string()))
}
fn jopt(o: &Option<String>) -> String { match o { Some(s) => format!("{:?}", s), None => "null".to_string() } }
/// shape required by the C18 statement: projects/<project without slash, non-empty><mid><non-empty id>
fn ref_shape(s: &str, mid: &str) -> bool {
    let rest = match s.strip_prefix("projects/") { Some(r) => r, None => return false };
    let i = match rest.find('/') { Some(i) => i, None => return false };
    if i == 0 { return false; }
    match rest[i..].strip_prefix(mid) { Some(t) => !t.is_empty(), None => false }
}
fn cmd_names(maxlen: usize) -> i32 {
    std::panic::set_hook(Box::new(|_| {}));
    let alphabet = ['p', 't', '/', 's', 'é', '-'];
    let stems = ["projects/", "projects/p", "projects/p/topics/", "projects/p/subscriptions/", "projects/p/topic/", "projects//topics/", "project/p/topics/", "projects/p/topics", "projects/pp/tobics/", "",
                 "projects", "project", "projects/a/b/topics/", "/projects/p/topics/", "/projects/p/subscriptions/", "//projects/p/topics/", "/", "projects/projects/p/topics/", "projects/projects/p/subscriptions/", "projects/projects/topics/", "projects/projects/subscriptions/", "projects/p/topics/topics/", "projects/topics/topics/", "projects/p/subscriptions/s/topics/", "projects/p/topics/t/subscriptions/", "projects/p/x/subscriptions/", "projectsé/p/topics/", "projectsé/p/subscriptions/", "projects/pé/topics/t", "projects/p/topicsé/t", "projects/p/subscriptions/é"];
    let mut n = 0u64;
    // second pass: characters that formatting / escaping code tends to treat specially, after the canonical stems
    let special = ['\'', '"', '\\', '\u{7}', '\n', '\u{301}', ' ', '%', '#', '?', 'a'];
    let special_stems = ["projects/p/topics/", "projects/p/subscriptions/", "projects/", "projects/p/topics/a", "projects/p/subscriptions/a"];
    let passes: Vec<(Vec<&str>, Vec<char>, usize)> = vec![(stems.to_vec(), alphabet.to_vec(), maxlen), (special_stems.to_vec(), special.to_vec(), maxlen.min(2))];
    for (stems, alphabet, maxlen) in passes {
    for stem in stems {
        // all suffixes over the alphabet up to maxlen
        let mut idx = vec![0usize; 0];
        loop {
            let s: String = stem.chars().chain(idx.iter().map(|i| alphabet[*i])).collect();
            n += 1;
            for (mid, is_topic) in [("/topics/", true), ("/subscriptions/", false)] {
                let want = ref_parse(&s, mid);
                let parsed = std::panic::catch_unwind(|| if is_topic { TopicName::try_parse(&s).map(|x| x.to_string()) } else { SubscriptionName::try_parse(&s).map(|x| x.to_string()) });
                let got = match parsed {
                    Ok(g) => g,
                    Err(_) => {
                        println!("WITNESS {{\"kind\":\"name\",\"property\":\"C17\",\"topic\":{},\"input\":{:?},\"observed\":\"try_parse panicked\"}}", is_topic, s);
                        return 1;
                    }
                };
                // (a) accepted only if the string has the shape projects/<p without slash>/<mid literal><non-empty id>
                if got.is_some() && !ref_shape(&s, mid) {
                    println!("WITNESS {{\"kind\":\"name\",\"property\":\"C18\",\"topic\":{},\"input\":{:?},\"accepted_as\":{},\"observed\":\"accepted although it is not projects/<project>{}<id>\"}}", is_topic, s, jopt(&got), mid);
                    return 1;
                }
                // (b) a canonical string (id without leading / trailing slash) is accepted and echoed unchanged
                if let Some((p, t)) = &want {
                    let canonical = format!("projects/{}{}{}", p, mid, t);
                    if canonical == s && got.as_deref() != Some(s.as_str()) {
                        println!("WITNESS {{\"kind\":\"name\",\"property\":\"C18\",\"topic\":{},\"input\":{:?},\"accepted_as\":{},\"observed\":\"canonical name not accepted as itself\"}}", is_topic, s, jopt(&got));
                        return 1;
                    }
                }
                // (c) the echoed name of an accepted name is accepted and denotes the same resource
                if let Some(e) = got.clone() {
                    let again = if is_topic { TopicName::try_parse(&e).map(|x| x.to_string()) } else { SubscriptionName::try_parse(&e).map(|x| x.to_string()) };
                    if again.as_ref() != Some(&e) {
                        println!("WITNESS {{\"kind\":\"name-echo\",\"property\":\"C18\",\"topic\":{},\"input\":{:?},\"echo\":{:?},\"echo_parsed\":{}}}", is_topic, s, e, jopt(&again));
                        return 1;
                    }
                }
            }
            // next index vector
            let mut k = 0;
            loop {
                if k == idx.len() { idx.push(0); break; }
                idx[k] += 1;
                if idx[k] < alphabet.len() { break; }
                idx[k] = 0;
                k += 1;
            }
            if idx.len() > maxlen { break; }
        }
    }
    }
    // C09: the text of a message id (what Publish returns and every delivery carries) is different for different ids,
    // also where the decimal renderings of topic number and per-topic counter could run into each other
    {
        let ts = [1u32, 2, 9, 10, 11, 20, 21, 99, 100, 101, 999, 1000, u32::MAX];
        let ls = [1u32, 2, 9, 10, 11, 99, 100, 999, 1000, 99_999, 100_000, 999_999, 1_000_000, 1_000_001, 9_999_999, 10_000_001, 100_000_001, u32::MAX - 1, u32::MAX];
        let mut seen: std::collections::HashMap<String, (u32, u32)> = std::collections::HashMap::new();
        for t in ts { for l in ls {
            let text = MessageId::new(t, l).to_string();
            if let Some((t0, l0)) = seen.insert(text.clone(), (t, l)) {
                println!("WITNESS {{\"kind\":\"name-identity\",\"property\":\"C09\",\"observed\":{:?}}}", format!("message {} of topic #{} and message {} of topic #{} are both rendered as the message id {:?}", l0, t0, l, t, text));
                return 1;
            }
        } }
    }
    // identity: names that differ in project or id denote different resources (as values, as hash-map keys, in the managers)
    let parts = ["a", "b", "ab", "a-b", "é"];
    let runtime = rt();
    let _guard = runtime.enter();
    let tm = TopicManager::new();
    let mut created: Vec<(String, String)> = Vec::new();
    for p1 in parts { for t1 in parts {
        for p2 in parts { for t2 in parts {
            let same = p1 == p2 && t1 == t2;
            if (TopicName::new(p1, t1) == TopicName::new(p2, t2)) != same || (SubscriptionName::new(p1, t1) == SubscriptionName::new(p2, t2)) != same {
                println!("WITNESS {{\"kind\":\"name-identity\",\"property\":\"C18\",\"a\":[{:?},{:?}],\"b\":[{:?},{:?}],\"observed\":\"names compare {} although (project, id) pairs are {}\"}}", p1, t1, p2, t2, if same { "different" } else { "equal" }, if same { "equal" } else { "different" });
                return 1;
            }
        } }
        let r = tm.create_topic(TopicName::new(p1, t1));
        if r.is_err() {
            println!("WITNESS {{\"kind\":\"name-identity\",\"property\":\"C18\",\"a\":[{:?},{:?}],\"observed\":\"creating a topic under a new (project, id) pair fails: it aliases one of {:?}\"}}", p1, t1, created);
            return 1;
        }
        created.push((p1.to_string(), t1.to_string()));
    } }
    for (p1, t1) in created.iter() {
        match tm.get_topic(&TopicName::new(p1, t1)) {
            Ok(t) if t.name.to_string() == format!("projects/{}/topics/{}", p1, t1) => {}
            other => {
                println!("WITNESS {{\"kind\":\"name-identity\",\"property\":\"C18\",\"a\":[{:?},{:?}],\"observed\":\"lookup returns {:?}\"}}", p1, t1, other.map(|t| t.name.to_string()).ok());
                return 1;
            }
        }
    }
    println!("NO-WITNESS strings={}", n);
    0
}

// ------------------------------------------------------------------------------------------------
// C13 page walks through the managers
async fn paging_walk(n: usize) -> Result<u64, String> {
    let tm = TopicManager::new();
    let sm = SubscriptionManager::new(Default::default());
    let mut names = Vec::new();
    for i in 0..n {
        let proj = if i % 3 == 2 { "other" } else { "p" };
        let t = tm.create_topic(TopicName::new(proj, &format!("t{}", i))).map_err(|_| "create")?;
        if proj == "p" { names.push(t.name.to_string()); }
    }
    // delete one in the middle to exercise "order after deletions"
    let hub = tm.create_topic(TopicName::new("p", "hub")).map_err(|_| "create")?;
    names.push(hub.name.to_string());
    let mut sub_names = Vec::new();
    for i in 0..n {
        let s = sm.create_subscription(SubscriptionInfo::new_with_defaults(SubscriptionName::new("p", &format!("s{}", i))), Arc::clone(&hub)).await.map_err(|_| "create sub")?;
        sub_names.push(s.name.to_string());
    }
    let mut checks = 0u64;
    for size in [0usize, 1, 2, 3, n.max(1) - 1, n, n + 1, n + 2, 1000, 1001, 5000] {
        let eff = if size == 0 { 20 } else if size > 1000 { 1000 } else { size };
        for start in [None, Some(0usize), Some(1), Some(n), Some(n + 5), Some(usize::MAX / 2), Some(usize::MAX - 1000), Some(usize::MAX - 999), Some(usize::MAX - 1), Some(usize::MAX)] {
            // topics
            let mut off = start;
            let mut got = Vec::new();
            let mut guard = 0;
            loop {
                let page = match std::panic::catch_unwind(std::panic::AssertUnwindSafe(|| tm.list_topics(Box::from("p"), Paging::new(size, off)))) {
                    Ok(Ok(p)) => p,
                    Ok(Err(_)) => return Err(format!("list_topics size={} offset={:?}: error instead of a page", size, off)),
                    Err(_) => return Err(format!("list_topics size={} offset={:?}: panicked", size, off)),
                };
                checks += 1;
                if page.topics.len() > eff { return Err(format!("list_topics size={} offset={:?}: page of {} > effective size {}", size, off, page.topics.len(), eff)); }
                got.extend(page.topics.iter().map(|t| t.name.to_string()));
                match page.offset { None => break, Some(o) => off = Some(o) }
                guard += 1;
                if guard > n + 5 { return Err(format!("list_topics size={} start={:?}: walk does not terminate", size, start)); }
            }
            let skip = start.unwrap_or(0).min(names.len());
            if got != names[skip..].to_vec() { return Err(format!("list_topics size={} start={:?}: walk yields {:?}, expected {:?}", size, start, got, &names[skip..])); }
            // subscriptions in project and topic subscriptions
            for which in 0..2 {
                let mut off = start;
                let mut got = Vec::new();
                let mut guard = 0;
                loop {
                    let page = if which == 0 {
                        match std::panic::catch_unwind(std::panic::AssertUnwindSafe(|| sm.list_subscriptions_in_project(Box::from("p"), Paging::new(size, off)))) {
                            Ok(Ok(p)) => p,
                            Ok(Err(_)) => return Err(format!("list_subscriptions size={} offset={:?}: error instead of a page", size, off)),
                            Err(_) => return Err(format!("list_subscriptions size={} offset={:?}: panicked", size, off)),
                        }
                    } else {
                        match hub.list_subscriptions(Paging::new(size, off)).await {
                            Ok(p) => p,
                            Err(_) => return Err(format!("list_topic_subscriptions size={} offset={:?}: error instead of a page (topic actor gone?)", size, off)),
                        }
                    };
                    checks += 1;
                    if page.subscriptions.len() > eff { return Err(format!("list subscriptions[{}] size={} offset={:?}: page of {} > {}", which, size, off, page.subscriptions.len(), eff)); }
                    got.extend(page.subscriptions.iter().map(|t| t.name.to_string()));
                    match page.offset { None => break, Some(o) => off = Some(o) }
                    guard += 1;
                    if guard > n + 5 { return Err(format!("list subscriptions[{}] size={} start={:?}: walk does not terminate", which, size, start)); }
                }
                let skip = start.unwrap_or(0).min(sub_names.len());
                if got != sub_names[skip..].to_vec() { return Err(format!("list subscriptions[{}] size={} start={:?}: walk yields {:?}, expected {:?}", which, size, start, got, &sub_names[skip..])); }
            }
        }
    }
    Ok(checks)
}
fn cmd_paging(n: usize) -> i32 {
    std::panic::set_hook(Box::new(|_| {}));
    for k in [0usize, 1, 2, n] {
        match rt().block_on(paging_walk(k)) {
            Ok(_) => {}
            Err(e) => {
                let also = if e.contains("panicked") || e.contains("error instead of a page") { ",\"also\":[\"C17\"]" } else { "" };
                println!("WITNESS {{\"kind\":\"paging\",\"property\":\"C13\"{},\"resources\":{},\"observed\":{:?}}}", also, k, e); return 1;
            }
        }
    }
    println!("NO-WITNESS paging n={}", n);
    0
}

// ------------------------------------------------------------------------------------------------
// lifecycle histories over a small pool of names: namespaces as maps (C10), deletion consistency (C11),
// global id uniqueness (C09), fan-out to exactly the attached subscriptions (C01), listing order (C13)
#[derive(Clone, Debug)]
enum LOp { CreateTopic(usize), DeleteTopic(usize, bool), CreateSub(usize, usize, bool), RaceCreateSub(usize, usize), DeleteSub(usize), Publish(usize, u8), DropHandles, DeleteHeld, CreateSubHeld(usize), DeleteSubUnderLoad(usize), DeleteSubStale }
fn lop_json(o: &LOp) -> String {
    match o {
        LOp::CreateTopic(t) => format!("[\"create_topic\",{}]", t),
        LOp::DeleteTopic(t, keep) => format!("[\"delete_topic\",{},{}]", t, keep),
        LOp::CreateSub(s, t, cross) => format!("[\"create_sub\",{},{},{}]", s, t, cross),
        LOp::RaceCreateSub(s, t) => format!("[\"race_create_sub\",{},{}]", s, t),
        LOp::DeleteSub(s) => format!("[\"delete_sub\",{}]", s),
        LOp::Publish(t, n) => format!("[\"publish\",{},{}]", t, n),
        LOp::DropHandles => "[\"drop_handles\"]".to_string(),
        LOp::DeleteHeld => "[\"delete_held\"]".to_string(),
        LOp::CreateSubHeld(s) => format!("[\"create_sub_held\",{}]", s),
        LOp::DeleteSubUnderLoad(s) => format!("[\"delete_sub_under_load\",{}]", s),
        LOp::DeleteSubStale => "[\"delete_sub_stale\"]".to_string(),
    }
}
fn lops_json(v: &[LOp]) -> String { format!("[{}]", v.iter().map(lop_json).collect::<Vec<_>>().join(",")) }
fn parse_lops(s: &str) -> Vec<LOp> {
    let mut out = Vec::new();
    for part in s.split("],[") {
        let p: Vec<String> = part.replace('[', "").replace(']', "").replace('"', "").split(',').map(|x| x.trim().to_string()).collect();
        let n = |i: usize| p.get(i).map(|x| x.parse::<usize>().unwrap_or(0)).unwrap_or(0);
        let b = |i: usize| p.get(i).map(|x| x == "true").unwrap_or(false);
        match p[0].as_str() {
            "create_topic" => out.push(LOp::CreateTopic(n(1))),
            "delete_topic" => out.push(LOp::DeleteTopic(n(1), b(2))),
            "create_sub" => out.push(LOp::CreateSub(n(1), n(2), b(3))),
            "race_create_sub" => out.push(LOp::RaceCreateSub(n(1), n(2))),
            "delete_sub" => out.push(LOp::DeleteSub(n(1))),
            "publish" => out.push(LOp::Publish(n(1), n(2) as u8)),
            "drop_handles" => out.push(LOp::DropHandles),
            "delete_held" => out.push(LOp::DeleteHeld),
            "create_sub_held" => out.push(LOp::CreateSubHeld(n(1))),
            "delete_sub_under_load" => out.push(LOp::DeleteSubUnderLoad(n(1))),
            "delete_sub_stale" => out.push(LOp::DeleteSubStale),
            _ => {}
        }
    }
    out
}
struct TRec { alive: bool, subs: Vec<usize>, order: u64 }
struct SRec { alive: bool, backlog: usize, order: u64, topic: usize, topic_gen: u64 }

async fn run_lifecycle(ops: &[LOp]) -> Result<(), Fail> {
    let tm = TopicManager::new();
    let sm = SubscriptionManager::new(Default::default());
    let tname = |i: usize| TopicName::new("p", &format!("t{}", i));
    let sname = |i: usize, cross: bool| SubscriptionName::new(if cross { "q" } else { "p" }, &format!("s{}", i));
    let mut topics: Vec<TRec> = (0..2).map(|_| TRec { alive: false, subs: Vec::new(), order: 0 }).collect();
    let mut tgen: Vec<u64> = vec![0, 0];
    let mut subs: Vec<SRec> = (0..3).map(|_| SRec { alive: false, backlog: 0, order: 0, topic: 0, topic_gen: 0 }).collect();
    let mut clock = 0u64;
    let mut all_ids: Vec<u64> = Vec::new();
    let mut held: Vec<(usize, Arc<Topic>)> = Vec::new();
    let mut stale_subs: Vec<Arc<Subscription>> = Vec::new();
    for (k, op) in ops.iter().enumerate() {
        let fail = |prop: &'static str, what: String| Err(Fail { prop, what: format!("step {} {}: {}", k, lop_json(op), what) });
        clock += 1;
        match op {
            LOp::CreateTopic(t) => {
                let r = tm.create_topic(tname(*t));
                if r.is_ok() == topics[*t].alive { return fail("C10", format!("create topic returned {} although the name is {}", if r.is_ok() { "Ok" } else { "an error" }, if topics[*t].alive { "present" } else { "absent" })); }
                if r.is_ok() { topics[*t] = TRec { alive: true, subs: Vec::new(), order: clock }; tgen[*t] += 1; }
            }
            LOp::DeleteTopic(t, keep) => {
                if let Ok(h) = tm.get_topic(&tname(*t)) {
                    if !topics[*t].alive { return fail("C10", "get_topic found a deleted / never created topic".into()); }
                    if h.delete().await.is_err() { return fail("C11", "DeleteTopic failed".into()); }
                    topics[*t].alive = false;
                    topics[*t].subs.clear();
                    if *keep { held.push((*t, h)); }
                } else if topics[*t].alive { return fail("C10", "get_topic does not find a live topic".into()); }
                if tm.get_topic(&tname(*t)).is_ok() { return fail("C10+C11", "topic still present after DeleteTopic returned".into()); }
            }
            LOp::CreateSub(s, t, cross) => {
                if let Ok(h) = tm.get_topic(&tname(*t)) {
                    let info = SubscriptionInfo::new_with_defaults(sname(*s, *cross));
                    let r = sm.create_subscription(info, Arc::clone(&h)).await;
                    if *cross {
                        if r.is_ok() { return fail("C10", "subscription created in another project than its topic".into()); }
                        if sm.get_subscription(&sname(*s, true)).is_ok() { return fail("C10", "failed create left a subscription behind".into()); }
                    } else {
                        if r.is_ok() == subs[*s].alive { return fail("C10", format!("create subscription returned {} although the name is {}", if r.is_ok() { "Ok" } else { "an error" }, if subs[*s].alive { "present" } else { "absent" })); }
                        if r.is_ok() { subs[*s] = SRec { alive: true, backlog: 0, order: clock, topic: *t, topic_gen: tgen[*t] }; topics[*t].subs.push(*s); }
                    }
                }
            }
            LOp::RaceCreateSub(s, t) => {
                if let Ok(h) = tm.get_topic(&tname(*t)) {
                    let a = sm.create_subscription(SubscriptionInfo::new_with_defaults(sname(*s, false)), Arc::clone(&h));
                    let b = sm.create_subscription(SubscriptionInfo::new_with_defaults(sname(*s, false)), Arc::clone(&h));
                    let (ra, rb) = tokio::join!(a, b);
                    let oks = ra.is_ok() as usize + rb.is_ok() as usize;
                    let want = if subs[*s].alive { 0 } else { 1 };
                    if oks != want { return fail("C10", format!("two racing creates of one name: {} succeeded, expected {}", oks, want)); }
                    if oks == 1 { subs[*s] = SRec { alive: true, backlog: 0, order: clock, topic: *t, topic_gen: tgen[*t] }; topics[*t].subs.push(*s); }
                }
            }
            LOp::DeleteSub(s) => {
                match sm.get_subscription(&sname(*s, false)) {
                    Ok(h) => {
                        if !subs[*s].alive { return fail("C10", "get_subscription found a deleted / never created subscription".into()); }
                        let r = h.delete().await;
                        if r.is_err() { return fail("C11", "DeleteSubscription returned an error".into()); }
                        if stale_subs.len() < 4 { stale_subs.push(Arc::clone(&h)); }
                        subs[*s].alive = false;
                        let t = subs[*s].topic;
                        topics[t].subs.retain(|x| x != s);
                        if sm.get_subscription(&sname(*s, false)).is_ok() { return fail("C10+C11", "subscription still registered after DeleteSubscription returned OK".into()); }
                    }
                    Err(_) => { if subs[*s].alive { return fail("C10", "get_subscription does not find a live subscription".into()); } }
                }
            }
            LOp::Publish(t, n) => {
                if let Ok(h) = tm.get_topic(&tname(*t)) {
                    let msgs = (0..*n).map(|i| TopicMessage::new(Bytes::from(vec![i]), None)).collect::<Vec<_>>();
                    let resp = match h.publish_messages(msgs).await { Ok(r) => r, Err(_) => return fail("C01+C11", "publish to a live topic failed".into()) };
                    if resp.message_ids.len() != *n as usize { return fail("C08", "wrong number of message ids".into()); }
                    for id in resp.message_ids {
                        if all_ids.contains(&id.value) { return fail("C09", format!("message id {} was already issued to another message", id.value)); }
                        all_ids.push(id.value);
                    }
                    for s in topics[*t].subs.clone() { subs[s].backlog += *n as usize; }
                }
            }
            LOp::DeleteSubUnderLoad(s) => {
                // DeleteSubscription while 16 other requests (the capacity of the topic's mailbox) are in flight on its topic
                match sm.get_subscription(&sname(*s, false)) {
                    Ok(h) => {
                        if !subs[*s].alive { return fail("C10", "get_subscription found a deleted / never created subscription".into()); }
                        let t = subs[*s].topic;
                        let live_topic = topics[t].alive && tgen[t] == subs[*s].topic_gen;
                        let mut js = tokio::task::JoinSet::new();
                        if live_topic {
                            if let Ok(th) = tm.get_topic(&tname(t)) {
                                for i in 0..16u8 {
                                    let th = Arc::clone(&th);
                                    js.spawn(async move {
                                        if i % 2 == 0 { Some(th.publish_messages(vec![TopicMessage::new(Bytes::from(vec![i]), None)]).await.map(|r| r.message_ids.iter().map(|x| x.value).collect::<Vec<u64>>()).map_err(|_| ())) }
                                        else { let _ = th.list_subscriptions(Paging::new(10, None)).await; None }
                                    });
                                }
                            }
                        }
                        let r = h.delete().await;
                        let mut published = 0usize;
                        while let Some(x) = js.join_next().await {
                            match x {
                                Ok(Some(Ok(ids))) => { for id in ids { if all_ids.contains(&id) { return fail("C09", format!("message id {} was already issued to another message", id)); } all_ids.push(id); published += 1; } }
                                Ok(Some(Err(()))) => return fail("C11+C01", "publish to a live topic failed while one of its subscriptions was being deleted (the topic still fans out to a subscription that is gone)".into()),
                                _ => {}
                            }
                        }
                        if r.is_err() {
                            // refused while the topic was busy: then it must still be there and a later delete must work (C10)
                            let again = h.delete().await;
                            let still = sm.get_subscription(&sname(*s, false)).is_ok();
                            return fail("C11+C10", format!("DeleteSubscription returned an error while its topic was busy; a retry returned {} and the subscription is {} afterwards", if again.is_ok() { "Ok" } else { "an error" }, if still { "still registered" } else { "gone" }));
                        }
                        subs[*s].alive = false;
                        topics[t].subs.retain(|x| x != s);
                        for o in topics[t].subs.clone() { subs[o].backlog += published; }
                        if sm.get_subscription(&sname(*s, false)).is_ok() { return fail("C10+C11", "subscription still registered after DeleteSubscription returned OK".into()); }
                    }
                    Err(_) => { if subs[*s].alive { return fail("C10", "get_subscription does not find a live subscription".into()); } }
                }
            }
            LOp::DropHandles => { held.clear(); }
            LOp::DeleteSubStale => {
                // a late, repeated DeleteSubscription on handles of already deleted incarnations (a retried request): no-ops;
                // in particular a subscription re-created under the same name stays attached and registered
                for h in stale_subs.iter() { let _ = h.delete().await; }
            }
            LOp::CreateSubHeld(s) => {
                // CreateSubscription racing DeleteTopic: the handler looked the topic up, the topic was deleted, then the
                // create runs with the handle of the deleted incarnation. Whatever the outcome, it is all-or-nothing (C10).
                if let Some((t, h)) = held.first() {
                    let r = sm.create_subscription(SubscriptionInfo::new_with_defaults(sname(*s, false)), Arc::clone(h)).await;
                    let present = sm.get_subscription(&sname(*s, false)).is_ok();
                    if subs[*s].alive {
                        if r.is_ok() { return fail("C10", "create subscription returned Ok although the name is present".into()); }
                    } else if r.is_ok() != present {
                        return fail("C10", format!("create subscription on a topic deleted in the meantime returned {} but the subscription is {} afterwards",
                            if r.is_ok() { "Ok" } else { "an error" }, if present { "present (half-created resource)" } else { "absent" }));
                    } else if r.is_ok() {
                        // exists, bound to a deleted incarnation: not listed under any live topic, receives nothing
                        subs[*s] = SRec { alive: true, backlog: 0, order: clock, topic: *t, topic_gen: 0 };
                    }
                }
            }
            LOp::DeleteHeld => {
                // a late, duplicate DeleteTopic addressed to handles of already deleted incarnations: must be a no-op
                for (_, h) in held.iter() { let _ = h.delete().await; }
            }
        }
        // ---- observable state after every step; a wrong SET of resources is attributed to the kind of step that
        // produced it (create -> C10, delete -> C11), a wrong ORDER of the right set to C13
        let state_tag: &'static str = match op {
            LOp::CreateTopic(_) | LOp::CreateSub(_, _, _) | LOp::RaceCreateSub(_, _) | LOp::CreateSubHeld(_) => "C10",
            LOp::DeleteTopic(_, _) | LOp::DeleteSub(_) | LOp::DeleteSubUnderLoad(_) | LOp::DeleteSubStale | LOp::DeleteHeld | LOp::DropHandles => "C11",
            LOp::Publish(_, _) => "C01",
        };
        let set_or_order = |got: &Vec<String>, want: &Vec<String>| -> &'static str {
            let (mut g, mut w) = (got.clone(), want.clone());
            g.sort(); w.sort();
            if g == w { "C13" } else { state_tag }
        };
        for (i, sr) in subs.iter().enumerate() {
            if !sr.alive { continue; }
            let h = match sm.get_subscription(&sname(i, false)) { Ok(h) => h, Err(_) => return fail("C10", format!("live subscription s{} not found", i)) };
            let st = h.get_stats().await.map_err(|_| Fail { prop: "C11", what: "stats of a live subscription failed".into() })?;
            if st.backlog_messages_count + st.outstanding_messages_count != sr.backlog {
                let live_topic = topics[sr.topic].alive && tgen[sr.topic] == sr.topic_gen;
                return fail(if live_topic { "C01" } else { "C11" }, format!("subscription s{} holds {} messages, expected {}", i, st.backlog_messages_count + st.outstanding_messages_count, sr.backlog));
            }
        }
        let mut want_t: Vec<(u64, String)> = topics.iter().enumerate().filter(|(_, t)| t.alive).map(|(i, t)| (t.order, tname(i).to_string())).collect();
        want_t.sort();
        let got_t: Vec<String> = tm.list_topics(Box::from("p"), Paging::new(0, None)).map_err(|_| Fail { prop: "C13", what: "list_topics failed".into() })?.topics.iter().map(|t| t.name.to_string()).collect();
        let want_tn: Vec<String> = want_t.iter().map(|x| x.1.clone()).collect();
        if got_t != want_tn { return fail(set_or_order(&got_t, &want_tn), format!("ListTopics = {:?}, expected {:?}", got_t, want_tn)); }
        let mut want_s: Vec<(u64, String)> = subs.iter().enumerate().filter(|(_, s)| s.alive).map(|(i, s)| (s.order, sname(i, false).to_string())).collect();
        want_s.sort();
        let got_s: Vec<String> = sm.list_subscriptions_in_project(Box::from("p"), Paging::new(0, None)).map_err(|_| Fail { prop: "C13", what: "list failed".into() })?.subscriptions.iter().map(|t| t.name.to_string()).collect();
        let want_sn: Vec<String> = want_s.iter().map(|x| x.1.clone()).collect();
        if got_s != want_sn { return fail(set_or_order(&got_s, &want_sn), format!("ListSubscriptions = {:?}, expected {:?}", got_s, want_sn)); }
        for (i, t) in topics.iter().enumerate() {
            if !t.alive { continue; }
            let h = tm.get_topic(&tname(i)).map_err(|_| Fail { prop: "C10", what: "live topic not found".into() })?;
            let mut want: Vec<(u64, String)> = t.subs.iter().map(|s| (subs[*s].order, sname(*s, false).to_string())).collect();
            want.sort();
            let got: Vec<String> = match h.list_subscriptions(Paging::new(0, None)).await { Ok(p) => p.subscriptions.iter().map(|s| s.name.to_string()).collect(), Err(_) => return fail("C11", "ListTopicSubscriptions of a live topic failed".into()) };
            let wantn: Vec<String> = want.iter().map(|x| x.1.clone()).collect();
            if got != wantn { let tag = set_or_order(&got, &wantn); return fail(if tag == "C13" { "C13" } else if tag == "C10" { "C10+C11" } else { "C11" }, format!("ListTopicSubscriptions(t{}) = {:?}, expected {:?}", i, got, wantn)); }
        }
    }
    Ok(())
}
fn gen_lops(rng: &mut Rng, steps: usize) -> Vec<LOp> {
    (0..steps).map(|_| match rng.below(17) {
        0 | 1 | 2 => LOp::CreateTopic(rng.below(2) as usize),
        3 => LOp::DeleteTopic(rng.below(2) as usize, rng.below(2) == 0),
        4 | 5 | 6 => LOp::CreateSub(rng.below(3) as usize, rng.below(2) as usize, rng.below(6) == 0),
        7 => LOp::RaceCreateSub(rng.below(3) as usize, rng.below(2) as usize),
        8 | 9 => LOp::DeleteSub(rng.below(3) as usize),
        10 | 11 => LOp::Publish(rng.below(2) as usize, 1 + rng.below(2) as u8),
        12 => LOp::DeleteHeld,
        13 => LOp::CreateSubHeld(rng.below(3) as usize),
        14 => LOp::DeleteSubUnderLoad(rng.below(3) as usize),
        15 => LOp::DeleteSubStale,
        _ => LOp::DropHandles,
    }).collect()
}
fn cmd_lifecycle(seed: u64, iters: usize, steps: usize) -> i32 {
    let mut rng = Rng(seed.wrapping_mul(0x9E3779B97F4A7C15) | 1);
    let mut other: Option<String> = None;
    for it in 0..iters {
        let ops = gen_lops(&mut rng, steps);
        if let Err(e) = rt().block_on(run_lifecycle(&ops)) {
            if !wanted(e.prop) {
                if other.is_none() { other = Some(format!("WITNESS {{\"kind\":\"lifecycle\",{},\"ops\":{},\"observed\":{:?},\"iteration\":{}}}", prop_json(e.prop), lops_json(&ops), e.what, it)); }
                continue;
            }
            let mut cur = ops.clone();
            let mut i = 0;
            while i < cur.len() {
                let mut t = cur.clone();
                t.remove(i);
                match rt().block_on(run_lifecycle(&t)) { Err(f) if f.prop == e.prop => { cur = t; } _ => { i += 1; } }
            }
            let e2 = rt().block_on(run_lifecycle(&cur)).err().unwrap_or(e);
            println!("WITNESS {{\"kind\":\"lifecycle\",{},\"ops\":{},\"observed\":{:?},\"iteration\":{}}}", prop_json(e2.prop), lops_json(&cur), e2.what, it);
            return 1;
        }
    }
    if let Some(o) = other { println!("{}", o); return 1; }
    println!("NO-WITNESS lifecycles={} steps={}", iters, steps);
    0
}

// ------------------------------------------------------------------------------------------------
// C08: concurrent publishers on a multi-threaded runtime: ids are issued in acceptance order and every
// subscription's first deliveries follow id order, each request contiguous
async fn run_order(publishers: usize, per_request: usize) -> Result<(), Fail> { run_order_with(publishers, per_request, 0).await }
/// `busy`: that many other requests are queued on the first subscription while the publishers run, so that the posts
/// of consecutive Publish requests wait in its mailbox together
async fn run_order_with(publishers: usize, per_request: usize, busy: usize) -> Result<(), Fail> {
    let tm = TopicManager::new();
    let sm = SubscriptionManager::new(Default::default());
    let topic = tm.create_topic(TopicName::new("p", "t")).map_err(|_| Fail { prop: "SETUP", what: "create".into() })?;
    let mut subs = Vec::new();
    for i in 0..2 {
        subs.push(sm.create_subscription(SubscriptionInfo::new_with_defaults(SubscriptionName::new("p", &format!("s{}", i))), Arc::clone(&topic)).await.map_err(|_| Fail { prop: "SETUP", what: "create sub".into() })?);
    }
    let mut handles = Vec::new();
    let mut others = tokio::task::JoinSet::new();
    for _ in 0..busy { let b = Arc::clone(&subs[0]); others.spawn(async move { let _ = b.get_stats().await; }); }
    for p in 0..publishers {
        let t = Arc::clone(&topic);
        handles.push(tokio::spawn(async move {
            let msgs = (0..per_request).map(|i| TopicMessage::new(Bytes::from(vec![p as u8, i as u8]), None)).collect::<Vec<_>>();
            t.publish_messages(msgs).await.map(|r| r.message_ids.iter().map(|x| x.value).collect::<Vec<u64>>())
        }));
    }
    let mut requests: Vec<Vec<u64>> = Vec::new();
    for h in handles { requests.push(h.await.map_err(|_| Fail { prop: "SETUP", what: "join".into() })?.map_err(|_| Fail { prop: "C01", what: "publish failed".into() })?); }
    while others.join_next().await.is_some() {}
    for r in requests.iter() { for w in r.windows(2) { if w[1] <= w[0] { return Err(Fail { prop: "C08", what: format!("ids of one request not strictly increasing: {:?}", r) }); } } }
    // contiguity: no id of another request lies inside the id range of a request
    for (i, r) in requests.iter().enumerate() { for (j, q) in requests.iter().enumerate() { if i != j { for x in q { if *x > r[0] && *x < r[r.len() - 1] { return Err(Fail { prop: "C08", what: format!("id {} of a concurrent request lies inside the id range of another Publish request {:?}", x, r) }); } } } } }
    for (si, s) in subs.iter().enumerate() {
        let mut got = Vec::new();
        loop {
            let p = s.pull_messages(1000).await.map_err(|_| Fail { prop: "SETUP", what: "pull".into() })?;
            if p.is_empty() { break; }
            got.extend(p.iter().map(|m| m.message().id.value));
        }
        if got.len() != publishers * per_request { return Err(Fail { prop: "C01", what: format!("subscription {} received {} of {} messages", si, got.len(), publishers * per_request) }); }
        for w in got.windows(2) { if w[1] <= w[0] { return Err(Fail { prop: "C08", what: format!("subscription {}: first deliveries {:?} not in id order", si, got) }); } }
    }
    Ok(())
}
/// one large Publish request (more than any internal batch size) racing a small one: the large request stays contiguous
async fn run_order_big() -> Result<(), Fail> {
    let tm = TopicManager::new();
    let sm = SubscriptionManager::new(Default::default());
    let topic = tm.create_topic(TopicName::new("p", "big")).map_err(|_| Fail { prop: "SETUP", what: "create".into() })?;
    let sub = sm.create_subscription(SubscriptionInfo::new_with_defaults(SubscriptionName::new("p", "big")), Arc::clone(&topic)).await.map_err(|_| Fail { prop: "SETUP", what: "create sub".into() })?;
    let a_msgs: Vec<TopicMessage> = (0..2500u32).map(|i| TopicMessage::new(Bytes::from(i.to_be_bytes().to_vec()), None)).collect();
    let b_msgs = vec![TopicMessage::new(Bytes::from("b"), None)];
    // both requests are in flight at the same time (A first), as two concurrent gRPC handlers would have them
    let (ra, rb) = tokio::join!(topic.publish_messages(a_msgs), topic.publish_messages(b_msgs));
    let ia: Vec<u64> = ra.map_err(|_| Fail { prop: "C01", what: "publish failed".into() })?.message_ids.iter().map(|x| x.value).collect();
    let ib: Vec<u64> = rb.map_err(|_| Fail { prop: "C01", what: "publish failed".into() })?.message_ids.iter().map(|x| x.value).collect();
    if ia.len() != 2500 || ib.len() != 1 { return Err(Fail { prop: "C08", what: format!("Publish returned {} / {} ids for 2500 / 1 messages", ia.len(), ib.len()) }); }
    for w in ia.windows(2) { if w[1] <= w[0] { return Err(Fail { prop: "C08", what: "ids of one request are not strictly increasing in request order".into() }); } }
    if ib[0] > ia[0] && ib[0] < ia[2499] { return Err(Fail { prop: "C08", what: format!("id {} of a concurrent request lies inside the id range {}..{} of one Publish request", ib[0], ia[0], ia[2499]) }); }
    let mut got = Vec::new();
    loop { let p = sub.pull_messages(1000).await.map_err(|_| Fail { prop: "SETUP", what: "pull".into() })?; if p.is_empty() { break; } got.extend(p.iter().map(|m| m.message().id.value)); }
    if got.len() != 2501 { return Err(Fail { prop: "C01", what: format!("{} of 2501 messages delivered", got.len()) }); }
    let pos = got.iter().position(|x| *x == ib[0]).unwrap_or(0);
    if pos != 0 && pos != 2500 { return Err(Fail { prop: "C08", what: format!("a message of another request was first-delivered at position {} inside one Publish request of 2500 messages", pos) }); }
    Ok(())
}
/// C10: creates of one absent name racing on real OS threads: exactly one wins, the others get ALREADY_EXISTS, and
/// the winner's topic is the one the manager serves afterwards
fn race_creates(names: usize, threads: usize, handle: &tokio::runtime::Handle) -> Result<(), Fail> {
    use std::sync::atomic::{AtomicUsize, Ordering};
    let tm = Arc::new(TopicManager::new());
    let gate = Arc::new(AtomicUsize::new(0));
    let wins: Arc<Vec<AtomicUsize>> = Arc::new((0..names).map(|_| AtomicUsize::new(0)).collect());
    let mut hs = Vec::new();
    for _ in 0..threads {
        let (tm, gate, wins, handle) = (Arc::clone(&tm), Arc::clone(&gate), Arc::clone(&wins), handle.clone());
        hs.push(std::thread::spawn(move || {
            let _g = handle.enter();
            for n in 0..names {
                // spinning barrier: all threads start on name n together
                gate.fetch_add(1, Ordering::SeqCst);
                while gate.load(Ordering::SeqCst) < (n + 1) * threads { std::hint::spin_loop(); }
                if tm.create_topic(TopicName::new("p", &format!("race{}", n))).is_ok() { wins[n].fetch_add(1, Ordering::SeqCst); }
            }
        }));
    }
    for h in hs { let _ = h.join(); }
    for n in 0..names {
        let w = wins[n].load(Ordering::SeqCst);
        if w != 1 { return Err(Fail { prop: "C10", what: format!("{} threads raced to create the absent topic race{}: {} creates returned Ok, expected exactly 1", threads, n, w) }); }
    }
    // C09: topics created at the same moment under DIFFERENT names never issue the same message id
    let tm2 = Arc::new(TopicManager::new());
    let gate2 = Arc::new(AtomicUsize::new(0));
    let rounds = (names / 4).max(50);
    let mut hs = Vec::new();
    for th in 0..threads {
        let (tm2, gate2, handle) = (Arc::clone(&tm2), Arc::clone(&gate2), handle.clone());
        hs.push(std::thread::spawn(move || {
            let _g = handle.enter();
            let mut mine = Vec::new();
            for n in 0..rounds {
                gate2.fetch_add(1, Ordering::SeqCst);
                while gate2.load(Ordering::SeqCst) < (n + 1) * threads { std::hint::spin_loop(); }
                if let Ok(t) = tm2.create_topic(TopicName::new("p", &format!("d{}-{}", n, th))) { mine.push(t); }
            }
            mine
        }));
    }
    let mut topics = Vec::new();
    for h in hs { if let Ok(v) = h.join() { topics.extend(v); } }
    let ids: Vec<(String, u64)> = handle.block_on(async {
        let mut out = Vec::new();
        for t in topics.iter() {
            if let Ok(r) = t.publish_messages(vec![TopicMessage::new(Bytes::from(vec![1]), None)]).await { for id in r.message_ids { out.push((t.name.to_string(), id.value)); } }
        }
        out
    });
    let mut seen: std::collections::HashMap<u64, String> = std::collections::HashMap::new();
    for (name, id) in ids {
        if let Some(other) = seen.insert(id, name.clone()) { return Err(Fail { prop: "C09", what: format!("message id {} was issued by two topics created at the same moment ({} and {})", id, other, name) }); }
    }
    Ok(())
}

/// the subscription applies the posts in its mailbox in the order in which they were put there: three posts, each
/// `post_messages` call returning before the next is made (what the topic actor does for consecutive Publish requests),
/// all three waiting in the mailbox before the actor runs
async fn run_mailbox_order(sizes: &[u32]) -> Result<(), Fail> {
    let tm = TopicManager::new();
    let sm = SubscriptionManager::new(Default::default());
    let topic = tm.create_topic(TopicName::new("p", "mb")).map_err(|_| Fail { prop: "SETUP", what: "create".into() })?;
    let sub = sm.create_subscription(SubscriptionInfo::new_with_defaults(SubscriptionName::new("p", "mb")), Arc::clone(&topic)).await.map_err(|_| Fail { prop: "SETUP", what: "create sub".into() })?;
    let mut next = 0u32;
    let mut want: Vec<u64> = Vec::new();
    for n in sizes {
        let batch: Vec<Arc<TopicMessage>> = (0..*n).map(|_| { next += 1; let mut m = TopicMessage::new(Bytes::from(next.to_be_bytes().to_vec()), None); m.publish(MessageId::new(77, next), std::time::SystemTime::now()); want.push(m.id.value); Arc::new(m) }).collect();
        sub.post_messages(batch).await.map_err(|_| Fail { prop: "SETUP", what: "post".into() })?;
    }
    let mut got: Vec<u64> = Vec::new();
    for _ in 0..50 {
        let p = sub.pull_messages(1000).await.map_err(|_| Fail { prop: "SETUP", what: "pull".into() })?;
        got.extend(p.iter().map(|m| m.message().id.value));
        if got.len() >= want.len() { break; }
        tokio::task::yield_now().await;
    }
    if got.len() != want.len() { return Err(Fail { prop: "C01", what: format!("{} of {} posted messages were delivered", got.len(), want.len()) }); }
    if got != want { return Err(Fail { prop: "C08", what: format!("posts of {:?} messages handed to the subscription one after the other (each accepted before the next was made): first deliveries {:?}, posted in the order {:?}", sizes, got.iter().map(|x| x & 0xffff_ffff).collect::<Vec<_>>(), want.iter().map(|x| x & 0xffff_ffff).collect::<Vec<_>>()) }); }
    Ok(())
}
fn cmd_order(rounds: usize) -> i32 {
    for sizes in [vec![3u32, 2, 1], vec![1, 1], vec![1, 5, 1, 5, 1, 5, 1, 5], vec![2; 14]] {
        if let Err(e) = tokio::runtime::Builder::new_current_thread().enable_all().build().unwrap().block_on(run_mailbox_order(&sizes)) {
            println!("WITNESS {{\"kind\":\"order\",{},\"publishers\":1,\"observed\":{:?},\"round\":0}}", prop_json(e.prop), e.what);
            return 1;
        }
    }
    let rt = tokio::runtime::Builder::new_multi_thread().worker_threads(2).enable_all().build().unwrap();
    if let Err(e) = race_creates(rounds.max(40) * 10, 4, rt.handle()) {
        println!("WITNESS {{\"kind\":\"order\",{},\"publishers\":0,\"observed\":{:?},\"round\":0}}", prop_json(e.prop), e.what);
        return 1;
    }
    for r in 0..(rounds / 10 + 1) {
        let res = if r % 2 == 0 { tokio::runtime::Builder::new_current_thread().enable_all().build().unwrap().block_on(run_order_big()) } else { rt.block_on(run_order_big()) };
        if let Err(e) = res {
            println!("WITNESS {{\"kind\":\"order\",{},\"publishers\":2,\"observed\":{:?},\"round\":{}}}", prop_json(e.prop), e.what, r);
            return 1;
        }
    }
    // the same with a busy subscription: on the two worker threads and on a current-thread runtime
    for r in 0..rounds {
        let busy = 24 + 8 * (r % 4);
        let res = if r % 2 == 0 { rt.block_on(run_order_with(2 + r % 3, 3, busy)) } else { tokio::runtime::Builder::new_current_thread().enable_all().build().unwrap().block_on(run_order_with(2 + r % 3, 3, busy)) };
        if let Err(e) = res {
            println!("WITNESS {{\"kind\":\"order\",{},\"publishers\":{},\"observed\":{:?},\"round\":{},\"busy\":{}}}", prop_json(e.prop), 2 + r % 3, e.what, r, busy);
            return 1;
        }
    }
    for r in 0..rounds {
        if let Err(e) = rt.block_on(run_order(2 + r % 3, 3)) {
            println!("WITNESS {{\"kind\":\"order\",{},\"publishers\":{},\"observed\":{:?},\"round\":{}}}", prop_json(e.prop), 2 + r % 3, e.what, r);
            return 1;
        }
    }
    println!("NO-WITNESS order rounds={}", rounds);
    0
}

// ------------------------------------------------------------------------------------------------
// C13 / C17: the page-token codec (src/api/page_token.rs, mounted by path). Every token the server can issue for an
// offset must be accepted back and denote that offset (else a walk cannot be continued); arbitrary strings never panic.
fn cmd_tokens(log2: u32) -> i32 {
    use mounted::page_token::PageToken;
    std::panic::set_hook(Box::new(|_| {}));
    let check = |v: usize| -> Result<(), String> {
        let r = std::panic::catch_unwind(|| { let t = PageToken::new(v).encode(); (t.clone(), PageToken::try_decode(&t).map(usize::from)) });
        match r {
            Err(_) => Err(format!("offset {}: the codec panicked", v)),
            Ok((t, None)) => Err(format!("the token {:?} issued for offset {} is rejected as undecodable", t, v)),
            Ok((t, Some(w))) if w != v => Err(format!("the token {:?} issued for offset {} decodes to offset {}", t, v, w)),
            _ => Ok(()),
        }
    };
    let mut n = 0u64;
    let mut run = |v: usize| -> Option<String> { n += 1; check(v).err() };
    let mut bad: Option<String> = None;
    // every offset below 2^log2, every byte value at every byte position over three backgrounds, and random 64-bit offsets
    for v in 0..(1usize << log2) { if let Some(e) = run(v) { bad = Some(e); break; } }
    if bad.is_none() {
        'outer: for bg in [0u8, 0xFF, 0xA5] { for pos in 0..std::mem::size_of::<usize>() { for b in 0..=255u8 {
            let mut bytes = [bg; std::mem::size_of::<usize>()];
            bytes[pos] = b;
            if let Some(e) = run(usize::from_ne_bytes(bytes)) { bad = Some(e); break 'outer; }
        } } }
    }
    if bad.is_none() {
        let mut rng = Rng(0x5EED_5EED_5EED_5EED);
        for _ in 0..200_000 { if let Some(e) = run(rng.next() as usize) { bad = Some(e); break; } }
    }
    if let Some(e) = bad {
        let also = if e.contains("panicked") { ",\"also\":[\"C17\"]" } else { "" };
        println!("WITNESS {{\"kind\":\"tokens\",\"property\":\"C13\"{},\"observed\":{:?}}}", also, e);
        return 1;
    }
    // hostile strings: decoding never panics (C17)
    let alphabet: Vec<char> = "AB+/-_=9 \u{e9}\n".chars().collect();
    let mut rng = Rng(0xC0FFEE);
    for _ in 0..200_000 {
        let len = rng.below(16) as usize;
        let sx: String = (0..len).map(|_| alphabet[rng.below(alphabet.len() as u64) as usize]).collect();
        if std::panic::catch_unwind(|| PageToken::try_decode(&sx).map(usize::from)).is_err() {
            println!("WITNESS {{\"kind\":\"tokens\",\"property\":\"C17\",\"also\":[\"C13\"],\"observed\":{:?}}}", format!("decoding the page token {:?} panics", sx));
            return 1;
        }
    }
    println!("NO-WITNESS tokens offsets={} hostile=200000", n);
    0
}


// ------------------------------------------------------------------------------------------------
// Wake-ups and bulk expiry at manager level (scripted; paused clock). C15: a parked consumer is woken while a message
// is available, also when the consumer that was woken first went away before its pull was served. C01 / C04: a large
// batch of leases that expires while other requests are arriving is requeued completely.
async fn run_wakeup_cancelled(round: usize) -> Result<(), Fail> {
    let tm = TopicManager::new();
    let sm = SubscriptionManager::new(Default::default());
    let topic = tm.create_topic(TopicName::new("p", "w")).map_err(|_| Fail { prop: "SETUP", what: "create".into() })?;
    let sub = sm.create_subscription(SubscriptionInfo::new_with_defaults(SubscriptionName::new("p", "w")), Arc::clone(&topic)).await.map_err(|_| Fail { prop: "SETUP", what: "create sub".into() })?;
    // two parked consumers: A is registered first (notify_one wakes it first), B second
    let a = sub.messages_available();
    tokio::pin!(a);
    let _ = futures_poll_once(a.as_mut()).await;
    let b = sub.messages_available();
    tokio::pin!(b);
    let _ = futures_poll_once(b.as_mut()).await;
    let n = 1 + round % 3;
    topic.publish_messages((0..n).map(|i| TopicMessage::new(Bytes::from(vec![i as u8]), None)).collect()).await.map_err(|_| Fail { prop: "SETUP", what: "publish".into() })?;
    for _ in 0..5 { tokio::task::yield_now().await; }
    if futures_poll_once(a.as_mut()).await.is_none() { return Err(Fail { prop: "C15+C06", what: "a parked consumer was not woken by a publish".into() }); }
    {
        // the woken consumer sends its pull and goes away before the answer
        let fut = sub.pull_messages(10);
        tokio::pin!(fut);
        let _ = futures_poll_once(fut.as_mut()).await;
    }
    for _ in 0..5 { tokio::task::yield_now().await; }
    // whatever happened to that pull, the messages become available again at the latest when the lease of the dead
    // consumer expires; by then the other parked consumer must have been woken
    tokio::time::advance(Duration::from_secs(11)).await;
    settle().await;
    let st = sub.get_stats().await.map_err(|_| Fail { prop: "SETUP", what: "stats".into() })?;
    if st.backlog_messages_count + st.outstanding_messages_count != n { return Err(Fail { prop: "C01+C16", what: format!("{} messages published, {} held after an abandoned pull", n, st.backlog_messages_count + st.outstanding_messages_count) }); }
    if st.backlog_messages_count > 0 && futures_poll_once(b.as_mut()).await.is_none() {
        return Err(Fail { prop: "C15+C06", what: format!("{} message(s) are available, yet a consumer parked since before the publish was never woken (the consumer woken first had gone away before its pull was served)", st.backlog_messages_count) });
    }
    Ok(())
}
async fn run_bulk_expiry(n_batches: usize) -> Result<(), Fail> {
    let tm = TopicManager::new();
    let sm = SubscriptionManager::new(Default::default());
    let topic = tm.create_topic(TopicName::new("p", "bulk")).map_err(|_| Fail { prop: "SETUP", what: "create".into() })?;
    let sub = sm.create_subscription(SubscriptionInfo::new_with_defaults(SubscriptionName::new("p", "bulk")), Arc::clone(&topic)).await.map_err(|_| Fail { prop: "SETUP", what: "create sub".into() })?;
    let total = n_batches * 200;
    for b in 0..n_batches { topic.publish_messages((0..200u32).map(|i| TopicMessage::new(Bytes::from(vec![b as u8, (i >> 8) as u8, i as u8]), None)).collect()).await.map_err(|_| Fail { prop: "SETUP", what: "publish".into() })?; }
    for round in 0..6 {
        let mut got = 0usize;
        for _ in 0..20 { let m = sub.pull_messages(1000).await.map_err(|_| Fail { prop: "SETUP", what: "pull".into() })?; if m.is_empty() { break; } got += m.len(); }
        if got != total { return Err(Fail { prop: "C01+C04", what: format!("round {}: {} of {} unacknowledged messages were redelivered after their deadline", round, got, total) }); }
        // other requests keep arriving while the whole batch expires
        let s2 = Arc::clone(&sub);
        let chatter = tokio::spawn(async move { for _ in 0..400 { let _ = s2.get_stats().await; tokio::task::yield_now().await; } });
        for _ in 0..12 { tokio::time::advance(Duration::from_millis(1000)).await; for _ in 0..3 { tokio::task::yield_now().await; } }
        let _ = chatter.await;
        settle().await;
        let st = sub.get_stats().await.map_err(|_| Fail { prop: "SETUP", what: "stats".into() })?;
        if st.backlog_messages_count + st.outstanding_messages_count != total {
            return Err(Fail { prop: "C01+C04", what: format!("round {}: {} leases expired together while other requests were arriving; the subscription now holds {} of {} messages", round, total, st.backlog_messages_count + st.outstanding_messages_count, total) });
        }
    }
    Ok(())
}
/// C01: a publish reaches every attached subscription also when one of them has a full mailbox at fan-out time
async fn run_fanout_busy(round: usize) -> Result<(), Fail> {
    let tm = TopicManager::new();
    let sm = SubscriptionManager::new(Default::default());
    let topic = tm.create_topic(TopicName::new("p", "fb")).map_err(|_| Fail { prop: "SETUP", what: "create".into() })?;
    let idle = sm.create_subscription(SubscriptionInfo::new_with_defaults(SubscriptionName::new("p", "idle")), Arc::clone(&topic)).await.map_err(|_| Fail { prop: "SETUP", what: "create sub".into() })?;
    let busy = sm.create_subscription(SubscriptionInfo::new_with_defaults(SubscriptionName::new("p", "busy")), Arc::clone(&topic)).await.map_err(|_| Fail { prop: "SETUP", what: "create sub".into() })?;
    let mut js = tokio::task::JoinSet::new();
    for _ in 0..(48 + 8 * (round % 3)) { let b = Arc::clone(&busy); js.spawn(async move { let _ = b.get_stats().await; }); }
    let t2 = Arc::clone(&topic);
    let publish = tokio::spawn(async move { t2.publish_messages(vec![TopicMessage::new(Bytes::from(vec![7]), None)]).await.map(|r| r.message_ids.len()) });
    while js.join_next().await.is_some() {}
    match publish.await { Ok(Ok(1)) => {}, _ => return Err(Fail { prop: "C01+C08", what: "publish to a live topic with two subscriptions failed or returned no id".into() }) }
    for _ in 0..5 { tokio::task::yield_now().await; }
    for (name, s) in [("idle", &idle), ("busy", &busy)] {
        let st = s.get_stats().await.map_err(|_| Fail { prop: "SETUP", what: "stats".into() })?;
        if st.backlog_messages_count + st.outstanding_messages_count != 1 {
            return Err(Fail { prop: "C01", what: format!("Publish returned an id; the subscription `{}` (attached throughout, its mailbox busy with other requests at that moment) holds {} of 1 messages", name, st.backlog_messages_count + st.outstanding_messages_count) });
        }
    }
    Ok(())
}
/// C03 on the push path: once the leases taken by a push round have run out and another consumer holds the messages,
/// that round no longer hands them to the endpoint. Endpoint: accepts every request and does not answer during the scenario.
async fn run_push_stale(n: usize) -> Result<(), Fail> {
    use deltio::push::push_loop::PushLoop;
    use deltio::push::PushSubscriptionsRegistry;
    let deadline = Duration::from_secs(10);
    let (url, mut rx) = rpc::push_endpoint_delayed(3_600_000).await?;
    let reg = PushSubscriptionsRegistry::new();
    let tm = TopicManager::new();
    let sm = Arc::new(SubscriptionManager::new(reg.clone()));
    let topic = tm.create_topic(TopicName::new("p", "ps")).map_err(|_| Fail { prop: "SETUP", what: "create".into() })?;
    let sub = sm.create_subscription(SubscriptionInfo::new(SubscriptionName::new("p", "ps"), deadline, Some(PushConfig::new(url, None, None))), Arc::clone(&topic))
        .await.map_err(|_| Fail { prop: "SETUP", what: "create push sub".into() })?;
    topic.publish_messages((0..n).map(|i| TopicMessage::new(Bytes::from(format!("m{}", i)), None)).collect()).await.map_err(|_| Fail { prop: "SETUP", what: "publish".into() })?;
    for _ in 0..10_000 {
        if sub.get_stats().await.map_err(|_| Fail { prop: "SETUP", what: "stats".into() })?.backlog_messages_count == n { break; }
        tokio::task::yield_now().await;
    }
    // one push round only: it starts right away and leases the whole backlog
    let task = tokio::spawn(PushLoop::new(Duration::from_secs(3_600), Arc::clone(&sm), reg.clone()).run());
    let started = Instant::now();
    let ran_out = started + deadline + Duration::from_millis(1_200);
    let mut first_round = 0usize;
    loop {
        tokio::select! {
            Some(_) = rx.recv() => first_round += 1,
            _ = tokio::time::sleep_until(ran_out) => break,
        }
    }
    let pulled_at = Instant::now();
    let pulled = sub.pull_messages(1_000).await.map_err(|_| Fail { prop: "SETUP", what: "pull".into() })?;
    let held: std::collections::HashSet<String> = pulled.iter().map(|m| m.message().id.to_string()).collect();
    let until = pulled_at + deadline - Duration::from_secs(2);
    let mut late: Vec<(String, Duration)> = Vec::new();
    loop {
        tokio::select! {
            Some(body) = rx.recv() => {
                if let Ok(v) = serde_json::from_slice::<serde_json::Value>(&body) {
                    let id = v["message"]["messageId"].as_str().unwrap_or("").to_string();
                    if held.contains(&id) { late.push((id, Instant::now() - pulled_at)); }
                }
            },
            _ = tokio::time::sleep_until(until) => break,
        }
    }
    task.abort();
    if let Some((id, at)) = late.first() {
        return Err(Fail { prop: "C03", what: format!("push subscription (ack deadline 10 s, backlog {}, endpoint that does not answer): the push round had dispatched {} messages when its leases ran out; a Pull then leased {} messages and kept them; {} of those were POSTed to the endpoint while that lease was outstanding (first: message {} after {:?})", n, first_round, held.len(), late.len(), id, at) });
    }
    Ok(())
}
/// C08 with pulls larger than the server-side page: first deliveries stay in publish order when a consumer asks for more
/// than 1000 messages and the backlog holds more than that
async fn run_big_pull_order(sizes: &[usize], pull_max: u16, pulls_before_more: usize) -> Result<(), Fail> {
    let tm = TopicManager::new();
    let sm = SubscriptionManager::new(Default::default());
    let topic = tm.create_topic(TopicName::new("p", "big")).map_err(|_| Fail { prop: "SETUP", what: "create".into() })?;
    let sub = sm.create_subscription(SubscriptionInfo::new_with_defaults(SubscriptionName::new("p", "big")), Arc::clone(&topic)).await.map_err(|_| Fail { prop: "SETUP", what: "create sub".into() })?;
    let mut published: Vec<String> = Vec::new();
    for (b, n) in sizes.iter().enumerate() {
        let r = topic.publish_messages((0..*n).map(|i| TopicMessage::new(Bytes::from(vec![b as u8, (i >> 8) as u8, i as u8]), None)).collect()).await.map_err(|_| Fail { prop: "SETUP", what: "publish".into() })?;
        published.extend(r.message_ids.iter().map(|i| i.to_string()));
    }
    let mut first_seen: Vec<String> = Vec::new();
    let mut seen = std::collections::HashSet::new();
    for _ in 0..pulls_before_more {
        settle().await;
        let m = sub.pull_messages(pull_max).await.map_err(|_| Fail { prop: "SETUP", what: "pull".into() })?;
        for x in m.iter() { let id = x.message().id.to_string(); if seen.insert(id.clone()) { first_seen.push(id); } }
        sub.acknowledge_messages(m.iter().map(|x| x.ack_id()).collect()).await.map_err(|_| Fail { prop: "SETUP", what: "ack".into() })?;
    }
    let r = topic.publish_messages(vec![TopicMessage::new(Bytes::from(vec![255]), None)]).await.map_err(|_| Fail { prop: "SETUP", what: "publish".into() })?;
    published.extend(r.message_ids.iter().map(|i| i.to_string()));
    // drain over two lease periods, acknowledging everything that arrives: only the first delivery of each message counts
    for _ in 0..24 {
        settle().await;
        loop {
            let m = sub.pull_messages(pull_max).await.map_err(|_| Fail { prop: "SETUP", what: "pull".into() })?;
            if m.is_empty() { break; }
            for x in m.iter() { let id = x.message().id.to_string(); if seen.insert(id.clone()) { first_seen.push(id); } }
            sub.acknowledge_messages(m.iter().map(|x| x.ack_id()).collect()).await.map_err(|_| Fail { prop: "SETUP", what: "ack".into() })?;
        }
        if first_seen.len() == published.len() { break; }
        tokio::time::sleep(Duration::from_secs(1)).await;
    }
    let pos: std::collections::HashMap<&String, usize> = published.iter().enumerate().map(|(i, x)| (x, i)).collect();
    for w in first_seen.windows(2) {
        if let (Some(a), Some(b)) = (pos.get(&w[0]), pos.get(&w[1])) {
            if a > b { return Err(Fail { prop: "C08", what: format!("publishes of {:?} then 1 message on one subscription, pulls of up to {} with every delivery acknowledged at once: the first delivery of published message #{} came after the first delivery of the later published message #{}", sizes, pull_max, b + 1, a + 1) }); }
        }
    }
    if first_seen.len() != published.len() { return Err(Fail { prop: "C01", what: format!("{} of {} published messages were delivered within two lease periods of draining", first_seen.len(), published.len()) }); }
    Ok(())
}
/// C04 "not before that instant" with two leases whose deadlines lie less than the rounding step apart: when the earlier
/// one has expired, the later one is still outstanding 1 ms before its own deadline
async fn run_close_deadlines(offset_ms: u64, gap_ms: u64) -> Result<(), Fail> {
    let tm = TopicManager::new();
    let sm = SubscriptionManager::new(Default::default());
    let topic = tm.create_topic(TopicName::new("p", "cd")).map_err(|_| Fail { prop: "SETUP", what: "create".into() })?;
    let sub = sm.create_subscription(SubscriptionInfo::new_with_defaults(SubscriptionName::new("p", "cd")), Arc::clone(&topic)).await.map_err(|_| Fail { prop: "SETUP", what: "create sub".into() })?;
    topic.publish_messages((0..2u8).map(|i| TopicMessage::new(Bytes::from(vec![i]), None)).collect()).await.map_err(|_| Fail { prop: "SETUP", what: "publish".into() })?;
    tokio::time::advance(Duration::from_millis(offset_ms)).await;
    for _ in 0..5 { tokio::task::yield_now().await; }
    let a = sub.pull_messages(1).await.map_err(|_| Fail { prop: "SETUP", what: "pull".into() })?;
    tokio::time::advance(Duration::from_millis(gap_ms)).await;
    let b = sub.pull_messages(1).await.map_err(|_| Fail { prop: "SETUP", what: "pull".into() })?;
    if a.len() != 1 || b.len() != 1 { return Ok(()); }   // hand-out counts are the business of other searches
    let (da, db) = (a[0].deadline().time(), b[0].deadline().time());
    if db < da + Duration::from_millis(3) { return Ok(()); }   // same tick: nothing to observe in between
    tokio::time::advance(db - Duration::from_millis(1) - Instant::now()).await;
    for _ in 0..10 { tokio::task::yield_now().await; }
    let st = sub.get_stats().await.map_err(|_| Fail { prop: "SETUP", what: "stats".into() })?;
    if st.outstanding_messages_count == 0 {
        return Err(Fail { prop: "C04+C03", what: format!("two deliveries handed out {} ms apart (deadlines {:?} apart): 1 ms before the deadline of the later one it is no longer outstanding (backlog {}): it was requeued together with the earlier one, before its own deadline", gap_ms, db - da, st.backlog_messages_count) });
    }
    Ok(())
}
fn cmd_wakeup(rounds: usize) -> i32 {
    // every scenario runs; each failing one prints its own WITNESS line
    let mut bad = 0;
    'cd: for offset in (0..100u64).step_by(7) {
        for gap in [15u64, 40, 60, 85] {
            if let Err(e) = rt().block_on(run_close_deadlines(offset, gap)) {
                println!("WITNESS {{\"kind\":\"wakeup\",{},\"scenario\":\"close_deadlines\",\"observed\":{:?},\"offset_ms\":{},\"gap_ms\":{}}}", prop_json(e.prop), e.what, offset, gap);
                bad += 1; break 'cd;
            }
        }
    }
    for (sizes, max, pulls) in [(vec![500usize, 500, 500], 2000u16, 1usize), (vec![1500], 1200, 2), (vec![700, 700], 1001, 1), (vec![300, 300], 5000, 1)] {
        if let Err(e) = rt().block_on(run_big_pull_order(&sizes, max, pulls)) {
            println!("WITNESS {{\"kind\":\"wakeup\",{},\"scenario\":\"big_pull_order\",\"observed\":{:?}}}", prop_json(e.prop), e.what);
            bad += 1; break;
        }
    }
    for n in [300usize, 900] {
        if let Err(e) = rt().block_on(run_push_stale(n)) {
            println!("WITNESS {{\"kind\":\"wakeup\",{},\"scenario\":\"push_stale_page\",\"observed\":{:?},\"backlog\":{}}}", prop_json(e.prop), e.what, n);
            bad += 1; break;
        }
    }
    for r in 0..rounds.max(6) {
        if let Err(e) = rt().block_on(run_fanout_busy(r)) {
            println!("WITNESS {{\"kind\":\"wakeup\",{},\"scenario\":\"fanout_busy\",\"observed\":{:?},\"round\":{}}}", prop_json(e.prop), e.what, r);
            bad += 1; break;
        }
    }
    for r in 0..rounds {
        if let Err(e) = rt().block_on(run_wakeup_cancelled(r)) {
            println!("WITNESS {{\"kind\":\"wakeup\",{},\"scenario\":\"cancelled_consumer\",\"observed\":{:?},\"round\":{}}}", prop_json(e.prop), e.what, r);
            bad += 1; break;
        }
    }
    for nb in [1usize, 3, 4] {
        if let Err(e) = rt().block_on(run_bulk_expiry(nb)) {
            println!("WITNESS {{\"kind\":\"wakeup\",{},\"scenario\":\"bulk_expiry\",\"observed\":{:?},\"batches\":{}}}", prop_json(e.prop), e.what, nb);
            bad += 1; break;
        }
    }
    if bad > 0 { return 1; }
    println!("NO-WITNESS wakeup rounds={}", rounds);
    0
}

fn main() {
    // The rounding EPOCH of AckDeadline is a process-wide lazy static fixed by the first AckDeadline::new call. Fix it
    // at process start, before any (paused) runtime advances its virtual clock: every later runtime starts its clock at
    // the real `now`, i.e. after EPOCH, as in production where time never runs backwards.
    rt().block_on(async { let _ = AckDeadline::new(&Instant::now()); });
    let args: Vec<String> = std::env::args().collect();
    let code = match args.get(1).map(|s| s.as_str()) {
        Some("history") => cmd_history(args[2].parse().unwrap(), args[3].parse().unwrap(), args[4].parse().unwrap()),
        Some("names") => cmd_names(args[2].parse().unwrap()),
        Some("paging") => cmd_paging(args[2].parse().unwrap()),
        Some("lifecycle") => cmd_lifecycle(args[2].parse().unwrap(), args[3].parse().unwrap(), args[4].parse().unwrap()),
        Some("order") => cmd_order(args[2].parse().unwrap()),
        Some("tokens") => cmd_tokens(args[2].parse().unwrap()),
        Some("wakeup") => cmd_wakeup(args[2].parse().unwrap()),
        Some("rpc") => rpc::run_all(),
        Some("run-lifecycle") => {
            let ops = parse_lops(&args[2]);
            match rt().block_on(run_lifecycle(&ops)) {
                Ok(()) => { println!("NO-WITNESS lifecycle replays without divergence"); 0 }
                Err(e) => { println!("WITNESS {{\"kind\":\"lifecycle\",{},\"ops\":{},\"observed\":{:?}}}", prop_json(e.prop), lops_json(&ops), e.what); 1 }
            }
        }
        Some("run-history") => {
            let d: u64 = args[2].parse().unwrap();
            let ops = parse_ops(&args[3]);
            let up: u64 = args.get(4).map(|x| x.parse().unwrap_or(0)).unwrap_or(0);
            match rt().block_on(run_history(&ops, d, up)) {
                Ok(()) => { println!("NO-WITNESS history replays without divergence"); 0 }
                Err(e) => { println!("WITNESS {{\"kind\":\"history\",{},\"ack_deadline_s\":{},\"ops\":{},\"observed\":{:?}}}", prop_json(e.prop), d, ops_to_json(&ops), e.what); 1 }
            }
        }
        _ => { eprintln!("usage: deltio-replay history|names|paging|run-history ..."); 2 }
    };
    std::process::exit(code);
}
