//! gRPC-level scenario suite: the handlers of src/api/{subscriber,publisher}.rs are async glue outside every
//! Verus bundle; this drives them through a real tonic client over a unix socket against `Deltio::server_builder()`.
//! Each scenario checks clauses of the property statements that only exist at the RPC surface (status codes, the
//! unary wait loop, in-stream control messages, conversions of request fields). Bounded stand-in, never a proof.
use crate::Fail;
use deltio::pubsub_proto::publisher_client::PublisherClient;
use deltio::pubsub_proto::subscriber_client::SubscriberClient;
use deltio::pubsub_proto::*;
use deltio::Deltio;
use futures::FutureExt;
use hyper_util::rt::TokioIo;
use std::collections::HashMap;
use std::sync::Arc;
use std::time::Duration;
use tokio::net::{UnixListener, UnixStream};
use tokio_stream::wrappers::UnixListenerStream;
use tonic::transport::{Channel, Endpoint};
use tonic::Code;
use tower::service_fn;

pub struct Host {
    pub publisher: PublisherClient<Channel>,
    pub subscriber: SubscriberClient<Channel>,
    sock_file: String,
    shutdown: Option<tokio::sync::oneshot::Sender<()>>,
}
static COUNTER: std::sync::atomic::AtomicU64 = std::sync::atomic::AtomicU64::new(0);

impl Host {
    pub async fn start() -> Result<Host, Fail> {
        let n = COUNTER.fetch_add(1, std::sync::atomic::Ordering::SeqCst);
        let sock_file = format!("{}/deltio-replay-{}-{}.sock", std::env::temp_dir().display(), std::process::id(), n);
        let _ = std::fs::remove_file(&sock_file);
        let listener = UnixListener::bind(&sock_file).map_err(|e| Fail { prop: "SETUP", what: format!("bind: {}", e) })?;
        let uds = UnixListenerStream::new(listener);
        let (tx, rx) = tokio::sync::oneshot::channel::<()>();
        let app = Deltio::new();
        let builder = app.server_builder();
        let sd = async { rx.await.unwrap_or(()) }.shared();
        // the push loop runs next to the server, as in src/main.rs
        let push_loop = app.push_loop(Duration::from_millis(200));
        let sd2 = sd.clone();
        tokio::spawn(async move { tokio::select! { _ = push_loop.run() => {}, _ = sd2 => {} } });
        tokio::spawn(async move { let _ = builder.serve_with_incoming_shutdown(uds, sd).await; });
        let sf = Arc::new(sock_file.clone());
        let channel = Endpoint::try_from("http://doesnt.matter").unwrap()
            .connect_with_connector(service_fn(move |_| { let sf = Arc::clone(&sf); async move { Ok::<_, std::io::Error>(TokioIo::new(UnixStream::connect(sf.as_ref()).await?)) } }))
            .await.map_err(|e| Fail { prop: "SETUP", what: format!("connect: {}", e) })?;
        Ok(Host { publisher: PublisherClient::new(channel.clone()), subscriber: SubscriberClient::new(channel), sock_file, shutdown: Some(tx) })
    }
    pub async fn stop(mut self) { if let Some(s) = self.shutdown.take() { let _ = s.send(()); } let _ = std::fs::remove_file(&self.sock_file); }

    async fn topic(&mut self, name: &str) -> Result<(), tonic::Status> {
        self.publisher.create_topic(Topic { name: name.to_string(), labels: Default::default(), message_storage_policy: None, kms_key_name: String::new(), schema_settings: None, satisfies_pzs: false, message_retention_duration: None }).await.map(|_| ())
    }
    async fn sub(&mut self, name: &str, topic: &str, ack_deadline: i32, endpoint: Option<&str>) -> Result<Subscription, tonic::Status> {
        self.subscriber.create_subscription(Subscription {
            name: name.to_string(), topic: topic.to_string(),
            push_config: endpoint.map(|e| PushConfig { attributes: Default::default(), authentication_method: None, push_endpoint: e.to_string() }),
            bigquery_config: None, ack_deadline_seconds: ack_deadline, retain_acked_messages: false, message_retention_duration: None,
            labels: Default::default(), enable_message_ordering: false, expiration_policy: None, filter: String::new(), dead_letter_policy: None,
            retry_policy: None, detached: false, enable_exactly_once_delivery: false, topic_message_retention_duration: None, state: 0,
        }).await.map(|r| r.into_inner())
    }
    async fn push_sub(&mut self, name: &str, topic: &str, endpoint: &str, attrs: HashMap<String, String>) -> Result<Subscription, tonic::Status> {
        let mut s = Subscription {
            name: name.to_string(), topic: topic.to_string(),
            push_config: Some(PushConfig { attributes: attrs, authentication_method: None, push_endpoint: endpoint.to_string() }),
            bigquery_config: None, ack_deadline_seconds: 0, retain_acked_messages: false, message_retention_duration: None,
            labels: Default::default(), enable_message_ordering: false, expiration_policy: None, filter: String::new(), dead_letter_policy: None,
            retry_policy: None, detached: false, enable_exactly_once_delivery: false, topic_message_retention_duration: None, state: 0,
        };
        s.state = 0;
        self.subscriber.create_subscription(s).await.map(|r| r.into_inner())
    }
    async fn publish(&mut self, topic: &str, msgs: Vec<(Vec<u8>, HashMap<String, String>)>) -> Result<Vec<String>, tonic::Status> {
        self.publisher.publish(PublishRequest { topic: topic.to_string(), messages: msgs.into_iter().enumerate().map(|(i, (d, a))| PubsubMessage { publish_time: None, attributes: a, message_id: String::new(),
            // ordering keys in descending order of the request position, every third message without one: deltio does not
            // implement ordered delivery, request order must be kept whatever the keys are
            ordering_key: if i % 3 == 2 { String::new() } else { format!("key-{:04}", 9999 - (i % 10000)) }, data: d }).collect() })
            .await.map(|r| r.into_inner().message_ids)
    }
    #[allow(deprecated)]
    async fn pull(&mut self, sub: &str, max: i32, immediately: bool) -> Result<Vec<ReceivedMessage>, tonic::Status> {
        self.subscriber.pull(PullRequest { subscription: sub.to_string(), return_immediately: immediately, max_messages: max }).await.map(|r| r.into_inner().received_messages)
    }
    async fn ack(&mut self, sub: &str, ids: Vec<String>) -> Result<(), tonic::Status> {
        self.subscriber.acknowledge(AcknowledgeRequest { subscription: sub.to_string(), ack_ids: ids }).await.map(|_| ())
    }
    async fn modack(&mut self, sub: &str, ids: Vec<String>, secs: i32) -> Result<(), tonic::Status> {
        self.subscriber.modify_ack_deadline(ModifyAckDeadlineRequest { subscription: sub.to_string(), ack_ids: ids, ack_deadline_seconds: secs }).await.map(|_| ())
    }
}

fn f(prop: &'static str, what: String) -> Fail { Fail { prop, what } }
fn expect_code<T>(r: Result<T, tonic::Status>, code: Code, prop: &'static str, what: &str) -> Result<(), Fail> {
    match r {
        Err(s) if s.code() == code => Ok(()),
        Err(s) => Err(f(prop, format!("{}: status {:?} instead of {:?}", what, s.code(), code))),
        Ok(_) => Err(f(prop, format!("{}: OK instead of {:?}", what, code))),
    }
}
async fn jump(d: Duration) {
    // same idiom as the repository's own tests: move virtual time, then let real IO run again
    tokio::time::pause();
    tokio::time::advance(d).await;
    tokio::time::resume();
    tokio::time::sleep(Duration::from_millis(60)).await;
}
/// creating an absent resource must succeed (C10): when a scenario's own set-up create fails, that is a witness, not a harness error
fn c10(what: &'static str) -> impl Fn(tonic::Status) -> Fail { move |e| Fail { prop: "C10", what: format!("{} failed with {:?}", what, e.code()) } }
fn setup<E: std::fmt::Debug>(what: &'static str) -> impl Fn(E) -> Fail { move |e| Fail { prop: "SETUP", what: format!("{}: {:?}", what, e) } }

/// C15: size limit across the i32 -> u16 conversion; empty only with return_immediately; blocked pulls are released
async fn s_pull_limits(h: &mut Host) -> Result<(), Fail> {
    let (t, s) = ("projects/p/topics/lim", "projects/p/subscriptions/lim");
    h.topic(t).await.map_err(c10("CreateTopic of an absent, well-formed name"))?;
    h.sub(s, t, 0, None).await.map_err(c10("CreateSubscription of an absent name on an existing topic of the same project"))?;
    for max in [1i32, 2, 65535, 65536, 65537, 131072, i32::MAX] {
        h.publish(t, (0..3).map(|i| (vec![i], HashMap::new())).collect()).await.map_err(setup("publish"))?;
        let mut got = 0usize;
        while got < 3 {
            let r = tokio::time::timeout(Duration::from_secs(15), h.pull(s, max, false)).await;
            let msgs = match r { Ok(Ok(m)) => m, Ok(Err(e)) => return Err(f("C15", format!("Pull(max_messages={}) failed: {:?}", max, e.code()))),
                Err(_) => return Err(f("C15", format!("Pull(max_messages={}) did not return although {} messages are available", max, 3 - got))) };
            if msgs.is_empty() { return Err(f("C15", format!("Pull(max_messages={}, return_immediately=false) returned an empty response although {} messages are available", max, 3 - got))); }
            if msgs.len() as i64 > max as i64 { return Err(f("C15", format!("Pull(max_messages={}) returned {} messages", max, msgs.len()))); }
            got += msgs.len();
            h.ack(s, msgs.iter().map(|m| m.ack_id.clone()).collect()).await.map_err(setup("ack"))?;
        }
    }
    // drained: return_immediately gives an empty response at once, a waiting pull blocks until a message arrives
    let r = tokio::time::timeout(Duration::from_secs(15), h.pull(s, 10, true)).await;
    match r { Ok(Ok(m)) if m.is_empty() => {}, Ok(Ok(m)) => return Err(f("C02", format!("{} acknowledged messages came back on a drained subscription", m.len()))), _ => return Err(f("C15", "Pull(return_immediately) on a drained subscription did not return an empty response at once".to_string())) }
    let mut sub2 = h.subscriber.clone();
    let waiting = tokio::spawn(async move {
        #[allow(deprecated)]
        sub2.pull(PullRequest { subscription: s.to_string(), return_immediately: false, max_messages: 10 }).await.map(|r| r.into_inner().received_messages)
    });
    tokio::time::sleep(Duration::from_millis(700)).await;
    if waiting.is_finished() {
        let r = waiting.await.unwrap();
        return Err(f("C15", format!("a Pull without return_immediately on a drained subscription returned after < 0.7 s with {:?}", r.map(|m| m.len()).map_err(|e| e.code()))));
    }
    h.publish(t, vec![(b"late".to_vec(), HashMap::new())]).await.map_err(setup("publish"))?;
    match tokio::time::timeout(Duration::from_secs(15), waiting).await {
        Ok(Ok(Ok(m))) if m.len() == 1 => Ok(()),
        Ok(Ok(Ok(m))) => Err(f("C15+C06", format!("a blocked Pull was released with {} messages instead of the 1 newly published", m.len()))),
        Ok(Ok(Err(e))) => Err(f("C15+C06", format!("a blocked Pull failed with {:?} when a message was published", e.code()))),
        _ => Err(f("C15+C06", "a blocked Pull was not released within 15 s by a newly published message".to_string())),
    }
}

/// C02 / C05 / C17: batches are parsed as a whole before anything is applied; unknown ids are ignored
async fn s_batches(h: &mut Host) -> Result<(), Fail> {
    let (t, s) = ("projects/p/topics/b", "projects/p/subscriptions/b");
    h.topic(t).await.map_err(c10("CreateTopic of an absent, well-formed name"))?;
    h.sub(s, t, 0, None).await.map_err(c10("CreateSubscription of an absent name on an existing topic of the same project"))?;
    h.publish(t, (0..2).map(|i| (vec![i], HashMap::new())).collect()).await.map_err(setup("publish"))?;
    let m = h.pull(s, 10, true).await.map_err(setup("pull"))?;
    if m.len() != 2 { return Err(f("SETUP", "expected 2 messages".into())); }
    let ids: Vec<String> = m.iter().map(|x| x.ack_id.clone()).collect();
    expect_code(h.ack(s, vec![ids[0].clone(), "not-an-ack-id".into()]).await, Code::InvalidArgument, "C17", "Acknowledge with one malformed ack id")?;
    expect_code(h.modack(s, vec!["zzz".into(), ids[1].clone()], 0).await, Code::InvalidArgument, "C05+C17", "ModifyAckDeadline with one malformed ack id")?;
    expect_code(h.modack(s, ids.clone(), -1).await, Code::InvalidArgument, "C05+C17", "ModifyAckDeadline with negative seconds")?;
    // nothing of the rejected requests was applied: both deliveries are still outstanding
    if !h.pull(s, 10, true).await.map_err(setup("pull"))?.is_empty() { return Err(f("C05+C17", "a rejected ModifyAckDeadline / Acknowledge request was partly applied (message back in the queue)".into())); }
    h.ack(s, vec!["424242".into()]).await.map_err(|e| f("C02", format!("Acknowledge of an unknown ack id failed: {:?}", e.code())))?;
    h.modack(s, vec!["424242".into(), ids[0].clone()], 0).await.map_err(|e| f("C05", format!("ModifyAckDeadline with an unknown ack id failed: {:?}", e.code())))?;
    let again = h.pull(s, 10, true).await.map_err(setup("pull"))?;
    if again.len() != 1 { return Err(f("C05", format!("nack of [unknown, outstanding]: {} messages back in the queue, expected 1", again.len()))); }
    // ack the rest; after the deadline nothing comes back (C02)
    h.ack(s, vec![ids[1].clone(), again[0].ack_id.clone()]).await.map_err(setup("ack"))?;
    jump(Duration::from_secs(25)).await;
    let after = h.pull(s, 10, true).await.map_err(setup("pull"))?;
    if !after.is_empty() { return Err(f("C02", format!("{} acknowledged messages were delivered again after the deadline", after.len()))); }
    Ok(())
}


/// C05 / C03: one unary ModifyAckDeadline request that extends several deliveries keeps every one of them leased
async fn s_multi_extend(h: &mut Host) -> Result<(), Fail> {
    let (t, s) = ("projects/p/topics/me", "projects/p/subscriptions/me");
    h.topic(t).await.map_err(c10("CreateTopic of an absent, well-formed name"))?;
    h.sub(s, t, 0, None).await.map_err(c10("CreateSubscription of an absent name on an existing topic of the same project"))?;
    // one unary request extends SEVERAL deliveries: every one of them stays leased (C05; C03: not handed to another pull)
    h.publish(t, (10..13).map(|i| (vec![i], HashMap::new())).collect()).await.map_err(setup("publish"))?;
    let ext = h.pull(s, 10, true).await.map_err(setup("pull"))?;
    if ext.len() != 3 { return Err(f("SETUP", format!("expected 3 messages, got {}", ext.len()))); }
    h.modack(s, ext.iter().map(|x| x.ack_id.clone()).collect(), 120).await.map_err(|e| f("C05", format!("ModifyAckDeadline(3 ids, 120 s) failed: {:?}", e.code())))?;
    jump(Duration::from_secs(30)).await;
    let early = h.pull(s, 10, true).await.map_err(setup("pull"))?;
    if !early.is_empty() { return Err(f("C05+C03", format!("3 deliveries extended to 120 s in one ModifyAckDeadline request: {} of them were handed out again after 30 s", early.len()))); }
    jump(Duration::from_secs(100)).await;
    let mut back = 0;
    for _ in 0..100 { back += h.pull(s, 10, true).await.map_err(setup("pull"))?.len(); if back >= 3 { break; } tokio::time::sleep(Duration::from_millis(50)).await; }
    if back != 3 { return Err(f("C05+C04", format!("130 s after an extension to 120 s, {} of 3 deliveries were redelivered", back))); }
    Ok(())
}

/// C05: a deadline extension sent inside a StreamingPull counts from the moment it is received
async fn s_stream_modack(h: &mut Host) -> Result<(), Fail> {
    let (t, s) = ("projects/p/topics/st", "projects/p/subscriptions/st");
    h.topic(t).await.map_err(c10("CreateTopic of an absent, well-formed name"))?;
    h.sub(s, t, 0, None).await.map_err(c10("CreateSubscription of an absent name on an existing topic of the same project"))?;
    let (tx, mut rx) = tokio::sync::mpsc::channel::<StreamingPullRequest>(16);
    let first = StreamingPullRequest { subscription: s.to_string(), ack_ids: vec![], modify_deadline_seconds: vec![], modify_deadline_ack_ids: vec![], stream_ack_deadline_seconds: 0, client_id: "c".into(), max_outstanding_messages: 100, max_outstanding_bytes: 100_000_000 };
    let mut inbound = h.subscriber.streaming_pull(async_stream::stream! { yield first; while let Some(r) = rx.recv().await { yield r; } }).await.map_err(setup("streaming_pull"))?.into_inner();
    tokio::time::sleep(Duration::from_millis(50)).await;
    jump(Duration::from_secs(120)).await;   // the stream has been open for two minutes
    h.publish(t, vec![(b"x".to_vec(), HashMap::new())]).await.map_err(setup("publish"))?;
    let d = match tokio::time::timeout(Duration::from_secs(15), inbound.message()).await { Ok(Ok(Some(r))) if r.received_messages.len() == 1 => r.received_messages[0].clone(), _ => return Err(f("SETUP", "open StreamingPull did not receive the published message".to_string())) };
    let ctl = |ids: Vec<String>, secs: Vec<i32>, acks: Vec<String>| StreamingPullRequest { subscription: String::new(), ack_ids: acks, modify_deadline_seconds: secs, modify_deadline_ack_ids: ids, stream_ack_deadline_seconds: 0, client_id: String::new(), max_outstanding_messages: 0, max_outstanding_bytes: 0 };
    tx.send(ctl(vec![d.ack_id.clone()], vec![60], vec![])).await.map_err(setup("send"))?;
    tokio::time::sleep(Duration::from_millis(100)).await;
    jump(Duration::from_secs(50)).await;    // 50 s after the extension: still leased
    if let Ok(Ok(Some(r))) = tokio::time::timeout(Duration::from_millis(400), inbound.message()).await {
        if !r.received_messages.is_empty() { return Err(f("C05+C03", "a delivery extended by 60 s inside a StreamingPull was handed out again within 50 s, while still leased".into())); }
    }
    jump(Duration::from_secs(15)).await;    // 65 s after the extension: redelivered with a new ack id
    match tokio::time::timeout(Duration::from_secs(15), inbound.message()).await {
        Ok(Ok(Some(r))) if r.received_messages.len() == 1 && r.received_messages[0].ack_id != d.ack_id => {
            // in-stream ack is final (C02)
            tx.send(ctl(vec![], vec![], vec![r.received_messages[0].ack_id.clone()])).await.map_err(setup("send"))?;
            tokio::time::sleep(Duration::from_millis(100)).await;
            jump(Duration::from_secs(30)).await;
            if let Ok(Ok(Some(r2))) = tokio::time::timeout(Duration::from_millis(400), inbound.message()).await {
                if !r2.received_messages.is_empty() { return Err(f("C02", "a message acknowledged inside a StreamingPull was delivered again".into())); }
            }
            // one control message carrying BOTH an acknowledgement and a nack: both are applied (C02, C05)
            h.publish(t, vec![(b"m1".to_vec(), HashMap::new()), (b"m2".to_vec(), HashMap::new())]).await.map_err(setup("publish"))?;
            let mut two = Vec::new();
            while two.len() < 2 {
                match tokio::time::timeout(Duration::from_secs(15), inbound.message()).await { Ok(Ok(Some(r))) => two.extend(r.received_messages), _ => return Err(f("SETUP", "open StreamingPull did not receive two published messages".to_string())) }
            }
            tx.send(ctl(vec![two[1].ack_id.clone()], vec![0], vec![two[0].ack_id.clone()])).await.map_err(setup("send"))?;
            match tokio::time::timeout(Duration::from_secs(5), inbound.message()).await {
                Ok(Ok(Some(r))) if r.received_messages.len() == 1 && r.received_messages[0].message.as_ref().map(|m| m.data.clone()) == two[1].message.as_ref().map(|m| m.data.clone()) => Ok(()),
                Ok(Ok(Some(r))) => Err(f("C05+C02", format!("control message with an ack and a nack: {} messages came back, expected exactly the nacked one", r.received_messages.len()))),
                _ => Err(f("C05", "control message with an ack and a nack (N=0): the nacked message was not returned to the queue".to_string())),
            }
        }
        _ => Err(f("C05+C04", "65 s after a 60 s extension the delivery was not redelivered with a new ack id".to_string())),
    }
}

/// C10: status codes of the namespace operations and the subscription read-back; C04: effective ack deadline
async fn s_namespace(h: &mut Host) -> Result<(), Fail> {
    let (t, s) = ("projects/p/topics/ns", "projects/p/subscriptions/ns");
    expect_code(h.publisher.get_topic(GetTopicRequest { topic: t.into() }).await, Code::NotFound, "C10", "GetTopic of an absent topic")?;
    expect_code(h.publish(t, vec![(vec![1], HashMap::new())]).await, Code::NotFound, "C10", "Publish to an absent topic")?;
    expect_code(h.sub(s, t, 0, None).await, Code::NotFound, "C10", "CreateSubscription on an absent topic")?;
    expect_code(h.subscriber.get_subscription(GetSubscriptionRequest { subscription: s.into() }).await, Code::NotFound, "C10", "GetSubscription after a failed create (residue)")?;
    h.topic(t).await.map_err(|e| f("C10", format!("CreateTopic of an absent name failed: {:?}", e.code())))?;
    expect_code(h.topic(t).await, Code::AlreadyExists, "C10", "CreateTopic of an existing name")?;
    expect_code(h.sub("projects/other/subscriptions/ns", t, 0, None).await, Code::InvalidArgument, "C10", "CreateSubscription in another project than its topic")?;
    expect_code(h.pull(s, 1, true).await, Code::NotFound, "C10", "Pull on an absent subscription")?;
    expect_code(h.ack(s, vec!["1".into()]).await, Code::NotFound, "C10", "Acknowledge on an absent subscription")?;
    expect_code(h.modack(s, vec!["1".into()], 10).await, Code::NotFound, "C10", "ModifyAckDeadline on an absent subscription")?;
    expect_code(h.ack(s, vec![]).await, Code::NotFound, "C10", "Acknowledge (empty ack id list) on an absent subscription")?;
    expect_code(h.modack(s, vec![], 10).await, Code::NotFound, "C10", "ModifyAckDeadline (empty ack id list) on an absent subscription")?;
    expect_code(h.pull(s, 0, true).await, Code::NotFound, "C10", "Pull (max_messages 0) on an absent subscription")?;
    expect_code(h.subscriber.delete_subscription(DeleteSubscriptionRequest { subscription: s.into() }).await, Code::NotFound, "C10", "DeleteSubscription of an absent subscription")?;
    expect_code(h.subscriber.get_subscription(GetSubscriptionRequest { subscription: "projects/other/subscriptions/ns".into() }).await, Code::NotFound, "C17+C10", "GetSubscription after a CreateSubscription rejected for its project (the rejected request changed state)")?;
    for (secs, eff) in [(0, 10), (5, 10), (10, 10), (25, 25), (-3, 10), (600, 600), (601, 601), (900, 900)] {
        let name = format!("projects/p/subscriptions/ns{}", secs + 10);
        let created = h.sub(&name, t, secs, Some("http://localhost:1/Push/Hook?Token=AbC")).await.map_err(|e| f("C10", format!("CreateSubscription failed: {:?}", e.code())))?;
        let read = h.subscriber.get_subscription(GetSubscriptionRequest { subscription: name.clone() }).await.map_err(|e| f("C10", format!("GetSubscription of a created subscription: {:?}", e.code())))?.into_inner();
        for r in [&created, &read] {
            if r.name != name || r.topic != t { return Err(f("C10", format!("subscription read back as name={:?} topic={:?}", r.name, r.topic))); }
            if r.ack_deadline_seconds != eff { return Err(f("C10+C04", format!("ack_deadline_seconds {} created, {} reported, effective deadline is {}", secs, r.ack_deadline_seconds, eff))); }
            if r.push_config.as_ref().map(|p| p.push_endpoint.as_str()) != Some("http://localhost:1/Push/Hook?Token=AbC") { return Err(f("C10", format!("push endpoint \"http://localhost:1/Push/Hook?Token=AbC\" is reported back as {:?}", r.push_config.as_ref().map(|p| p.push_endpoint.clone())))); }
        }
        expect_code(h.sub(&name, t, secs, None).await, Code::AlreadyExists, "C10", "CreateSubscription of an existing name")?;
        h.subscriber.delete_subscription(DeleteSubscriptionRequest { subscription: name.clone() }).await.map_err(|e| f("C10+C11", format!("DeleteSubscription failed: {:?}", e.code())))?;
        expect_code(h.subscriber.get_subscription(GetSubscriptionRequest { subscription: name.clone() }).await, Code::NotFound, "C10+C11", "GetSubscription after DeleteSubscription returned")?;
        expect_code(h.ack(&name, vec![]).await, Code::NotFound, "C10+C11", "Acknowledge (empty ack id list) after DeleteSubscription returned")?;
        expect_code(h.modack(&name, vec![], 10).await, Code::NotFound, "C10+C11", "ModifyAckDeadline (empty ack id list) after DeleteSubscription returned")?;
    }
    // C10: a duplicate create that is rejected changes nothing - also when it carries a push configuration
    {
        let (url, mut rx) = push_endpoint().await?;
        let name = "projects/p/subscriptions/dup";
        h.sub(name, t, 0, None).await.map_err(c10("CreateSubscription of an absent name on an existing topic of the same project"))?;
        expect_code(h.sub(name, t, 0, Some(&url)).await, Code::AlreadyExists, "C10", "CreateSubscription of an existing name (with a push config)")?;
        h.publish(t, vec![(vec![6], HashMap::new())]).await.map_err(setup("publish"))?;
        jump(Duration::from_secs(2)).await;
        if let Ok(Some(_)) = tokio::time::timeout(Duration::from_millis(500), rx.recv()).await {
            return Err(f("C10", "a message of a pull subscription was pushed to the endpoint of a REJECTED duplicate CreateSubscription".into()));
        }
        let m = h.pull(name, 10, true).await.map_err(setup("pull"))?;
        if m.len() != 1 { return Err(f("C10+C01", format!("after a rejected duplicate CreateSubscription the pull subscription delivers {} of 1 messages", m.len()))); }
        let got = h.subscriber.get_subscription(GetSubscriptionRequest { subscription: name.into() }).await.map_err(|e| f("C10", format!("GetSubscription: {:?}", e.code())))?.into_inner();
        if got.push_config.map(|p| !p.push_endpoint.is_empty()).unwrap_or(false) { return Err(f("C10", "a rejected duplicate CreateSubscription changed the push configuration that is read back".into())); }
        h.ack(name, m.iter().map(|x| x.ack_id.clone()).collect()).await.map_err(setup("ack"))?;
    }
    // C10: the whole push configuration is read back as it was given (endpoint, attributes, oidc token fields)
    {
        use deltio::pubsub_proto::push_config::{AuthenticationMethod, OidcToken};
        let name = "projects/p/subscriptions/oidc";
        let attrs: HashMap<String, String> = [("x-goog-version".to_string(), "v1".to_string()), ("k".to_string(), "w".to_string())].into_iter().collect();
        let cfg = PushConfig { attributes: attrs.clone(), push_endpoint: "http://localhost:1/oidc".into(),
            authentication_method: Some(AuthenticationMethod::OidcToken(OidcToken { service_account_email: "pusher@my-project.iam.gserviceaccount.com".into(), audience: "https://push.example.com/audience".into() })) };
        let req = Subscription {
            name: name.to_string(), topic: t.to_string(), push_config: Some(cfg.clone()),
            bigquery_config: None, ack_deadline_seconds: 0, retain_acked_messages: false, message_retention_duration: None,
            labels: Default::default(), enable_message_ordering: false, expiration_policy: None, filter: String::new(), dead_letter_policy: None,
            retry_policy: None, detached: false, enable_exactly_once_delivery: false, topic_message_retention_duration: None, state: 0,
        };
        let created = h.subscriber.create_subscription(req).await.map_err(|e| f("C10", format!("CreateSubscription with an oidc push config failed: {:?}", e.code())))?.into_inner();
        let read = h.subscriber.get_subscription(GetSubscriptionRequest { subscription: name.into() }).await.map_err(|e| f("C10", format!("GetSubscription: {:?}", e.code())))?.into_inner();
        for (what, r) in [("create response", &created), ("GetSubscription", &read)] {
            if r.push_config.as_ref() != Some(&cfg) { return Err(f("C10", format!("{}: push configuration read back as {:?}, created with {:?}", what, r.push_config, cfg))); }
        }
        h.subscriber.delete_subscription(DeleteSubscriptionRequest { subscription: name.into() }).await.map_err(|e| f("C10+C11", format!("DeleteSubscription failed: {:?}", e.code())))?;
    }
    // C04 through the API: a subscription created with 3 s still waits the 10 s minimum
    let name = "projects/p/subscriptions/floor";
    h.sub(name, t, 3, None).await.map_err(c10("CreateSubscription of an absent name on an existing topic of the same project"))?;
    h.publish(t, vec![(vec![7], HashMap::new())]).await.map_err(setup("publish"))?;
    if h.pull(name, 1, true).await.map_err(setup("pull"))?.len() != 1 { return Err(f("SETUP", "no message".into())); }
    jump(Duration::from_secs(8)).await;
    if !h.pull(name, 1, true).await.map_err(setup("pull"))?.is_empty() { return Err(f("C04", "ack_deadline_seconds=3: redelivered 8 s after hand-out, before the 10 s minimum".into())); }
    jump(Duration::from_secs(3)).await;
    let mut back = 0;
    for _ in 0..100 { back = h.pull(name, 1, true).await.map_err(setup("pull"))?.len(); if back == 1 { break; } tokio::time::sleep(Duration::from_millis(50)).await; }
    if back != 1 { return Err(f("C04", "ack_deadline_seconds=3: not redelivered 11 s after hand-out".into())); }
    // C04 through the API: a subscription created with 900 s keeps a delivery leased for 900 s
    let long = "projects/p/subscriptions/long";
    h.sub(long, t, 900, None).await.map_err(c10("CreateSubscription of an absent name on an existing topic of the same project"))?;
    h.publish(t, vec![(vec![8], HashMap::new())]).await.map_err(setup("publish"))?;
    if h.pull(long, 1, true).await.map_err(setup("pull"))?.len() != 1 { return Err(f("SETUP", "no message".into())); }
    jump(Duration::from_secs(750)).await;
    if !h.pull(long, 1, true).await.map_err(setup("pull"))?.is_empty() { return Err(f("C04", "ack_deadline_seconds=900: redelivered 750 s after hand-out".into())); }
    jump(Duration::from_secs(152)).await;
    let mut back = 0;
    for _ in 0..100 { back = h.pull(long, 1, true).await.map_err(setup("pull"))?.len(); if back == 1 { break; } tokio::time::sleep(Duration::from_millis(50)).await; }
    if back != 1 { return Err(f("C04", "ack_deadline_seconds=900: not redelivered 902 s after hand-out".into())); }
    h.publisher.delete_topic(DeleteTopicRequest { topic: t.into() }).await.map_err(|e| f("C10+C11", format!("DeleteTopic failed: {:?}", e.code())))?;
    expect_code(h.publisher.get_topic(GetTopicRequest { topic: t.into() }).await, Code::NotFound, "C10+C11", "GetTopic after DeleteTopic returned")?;
    let orphan = h.subscriber.get_subscription(GetSubscriptionRequest { subscription: name.into() }).await.map_err(|e| f("C11", format!("subscription of a deleted topic is gone: {:?}", e.code())))?.into_inner();
    if orphan.topic == t { return Err(f("C11", format!("subscription of a deleted topic still reports topic {:?}", orphan.topic))); }
    Ok(())
}

/// C17: malformed fields give INVALID_ARGUMENT, never a broken connection; the server keeps serving
async fn s_malformed(h: &mut Host) -> Result<(), Fail> {
    let t = "projects/p/topics/mf";
    h.topic(t).await.map_err(c10("CreateTopic of an absent, well-formed name"))?;
    h.sub("projects/p/subscriptions/mf", t, 0, None).await.map_err(c10("CreateSubscription of an absent name on an existing topic of the same project"))?;
    for bad in ["", "nope", "projects/p", "projects//topics/x", "projects/p//topics/abc", "projects//p/topics/abc", "projects/p/topics/", "projects\u{e9}p/topics/abcdefgh", "projects/p/tobics/abcdef", "projects/p/subscriptions/mf", "projects/p/topics////"] {
        expect_code(h.publisher.get_topic(GetTopicRequest { topic: bad.into() }).await, Code::InvalidArgument, "C17+C18", &format!("GetTopic({:?})", bad))?;
        expect_code(h.publish(bad, vec![(vec![1], HashMap::new())]).await, Code::InvalidArgument, "C17+C18", &format!("Publish({:?})", bad))?;
    }
    for bad in ["", "nope", "projects/p/topics/mf", "projects\u{e9}lets-go/subscriptions/deltio", "projects/p/subscriptions/", "projects//subscriptions/x"] {
        expect_code(h.pull(bad, 1, true).await, Code::InvalidArgument, "C17+C18", &format!("Pull({:?})", bad))?;
        expect_code(h.ack(bad, vec!["1".into()]).await, Code::InvalidArgument, "C17+C18", &format!("Acknowledge({:?})", bad))?;
        expect_code(h.subscriber.get_subscription(GetSubscriptionRequest { subscription: bad.into() }).await, Code::InvalidArgument, "C17+C18", &format!("GetSubscription({:?})", bad))?;
    }
    expect_code(h.sub("projects/p/subscriptions/pushy", t, 0, Some("ftp://nope")).await, Code::InvalidArgument, "C17", "CreateSubscription with an unsupported push endpoint")?;
    expect_code(h.subscriber.get_subscription(GetSubscriptionRequest { subscription: "projects/p/subscriptions/pushy".into() }).await, Code::NotFound, "C17+C10", "GetSubscription after a rejected CreateSubscription (the rejected request changed state)")?;
    // unsupported endpoints whose first bytes are not ASCII (multi-byte characters at every small byte offset)
    for bad in ["ftp\u{20ac}://nope", "htt\u{e9}p://nope", "\u{65e5}\u{672c}\u{8a9e}", "\u{e9}", "h\u{e9}ttp://nope", "ht\u{20ac}tp://nope", "\u{1F600}http://nope", "ws\u{e9}"] {
        expect_code(h.sub("projects/p/subscriptions/pushy", t, 0, Some(bad)).await, Code::InvalidArgument, "C17", &format!("CreateSubscription with the unsupported push endpoint {:?}", bad))?;
        expect_code(h.subscriber.get_subscription(GetSubscriptionRequest { subscription: "projects/p/subscriptions/pushy".into() }).await, Code::NotFound, "C17+C10", "GetSubscription after a rejected CreateSubscription (the rejected request changed state)")?;
    }
    for (size, token) in [(-1, ""), (i32::MIN, ""), (1, "!!!"), (1, "AAAA"), (1, "AAAAAAAAAAAAAAAAAAAA")] {
        expect_code(h.publisher.list_topics(ListTopicsRequest { project: "projects/p".into(), page_size: size, page_token: token.into() }).await, Code::InvalidArgument, "C17+C13", &format!("ListTopics(page_size={}, page_token={:?})", size, token))?;
        expect_code(h.subscriber.list_subscriptions(ListSubscriptionsRequest { project: "projects/p".into(), page_size: size, page_token: token.into() }).await, Code::InvalidArgument, "C17+C13", &format!("ListSubscriptions(page_size={}, page_token={:?})", size, token))?;
        expect_code(h.publisher.list_topic_subscriptions(ListTopicSubscriptionsRequest { topic: t.into(), page_size: size, page_token: token.into() }).await, Code::InvalidArgument, "C17+C13", &format!("ListTopicSubscriptions(page_size={}, page_token={:?})", size, token))?;
    }
    expect_code(h.publisher.list_topics(ListTopicsRequest { project: "p".into(), page_size: 1, page_token: String::new() }).await, Code::InvalidArgument, "C17", "ListTopics(project without prefix)")?;
    // decodable tokens the server never issued: a valid, possibly empty page (8 bytes, any offset)
    for tok in ["6AMAAAAAAAA=", "/////////38=", "AQAAAAAAAAA=", "//////////8=", "/v////////8=", "GPz///////8=", "F/z///////8="] {
        let r = h.publisher.list_topics(ListTopicsRequest { project: "projects/p".into(), page_size: 5, page_token: tok.into() }).await;
        if let Err(e) = r { if e.code() != Code::InvalidArgument { return Err(f("C13+C17", format!("ListTopics with the token {:?}: {:?}", tok, e.code()))); } }
        let r = h.publisher.list_topic_subscriptions(ListTopicSubscriptionsRequest { topic: t.into(), page_size: 5, page_token: tok.into() }).await;
        if let Err(e) = r { if e.code() != Code::InvalidArgument { return Err(f("C13+C17", format!("ListTopicSubscriptions with the token {:?}: {:?}", tok, e.code()))); } }
        let r = h.subscriber.list_subscriptions(ListSubscriptionsRequest { project: "projects/p".into(), page_size: 5, page_token: tok.into() }).await;
        if let Err(e) = r { if e.code() != Code::InvalidArgument { return Err(f("C13+C17", format!("ListSubscriptions with the token {:?}: {:?}", tok, e.code()))); } }
    }
    // C18 through the handlers: names that differ denote different topics, and the echoed name denotes the same one
    let (xa, xb) = ("projects/p/topics/x/y", "projects/p/topics/x//y");
    let ea = h.publisher.create_topic(Topic { name: xa.into(), labels: Default::default(), message_storage_policy: None, kms_key_name: String::new(), schema_settings: None, satisfies_pzs: false, message_retention_duration: None }).await.map_err(|e| f("C18+C10", format!("CreateTopic({:?}) failed: {:?}", xa, e.code())))?.into_inner().name;
    let eb = h.publisher.create_topic(Topic { name: xb.into(), labels: Default::default(), message_storage_policy: None, kms_key_name: String::new(), schema_settings: None, satisfies_pzs: false, message_retention_duration: None }).await.map_err(|e| f("C18", format!("CreateTopic({:?}) after CreateTopic({:?}) failed: {:?} (names that differ in the id denote different topics)", xb, xa, e.code())))?.into_inner().name;
    if ea == eb { return Err(f("C18", format!("CreateTopic({:?}) and CreateTopic({:?}) echo the same name {:?}", xa, xb, ea))); }
    for e in [&ea, &eb] {
        let got = h.publisher.get_topic(GetTopicRequest { topic: e.clone() }).await.map_err(|s| f("C18", format!("the echoed name {:?} is not accepted back: {:?}", e, s.code())))?.into_inner().name;
        if got != *e { return Err(f("C18", format!("GetTopic({:?}) answers for {:?}", e, got))); }
    }
    // C17: a negative ack_deadline_seconds is either rejected or harmless - the subscription must stay usable
    for secs in [-1, i32::MIN] {
        let name = format!("projects/p/subscriptions/neg{}", if secs == -1 { 1 } else { 2 });
        match h.sub(&name, t, secs, None).await {
            Err(e) if e.code() == Code::InvalidArgument => {}
            Err(e) => return Err(f("C17", format!("CreateSubscription(ack_deadline_seconds={}): {:?}", secs, e.code()))),
            Ok(_) => {
                h.publish(t, vec![(vec![5], HashMap::new())]).await.map_err(|e| f("C17+C01", format!("Publish after CreateSubscription(ack_deadline_seconds={}) failed: {:?}", secs, e.code())))?;
                match h.pull(&name, 1, true).await {
                    Ok(m) if m.len() == 1 => { h.ack(&name, vec![m[0].ack_id.clone()]).await.map_err(|e| f("C17", format!("Acknowledge on a subscription created with ack_deadline_seconds={} failed: {:?}", secs, e.code())))?; }
                    Ok(m) => return Err(f("C17+C01", format!("a subscription created with ack_deadline_seconds={} delivers {} of 1 messages", secs, m.len()))),
                    Err(e) => return Err(f("C17", format!("Pull on a subscription created with ack_deadline_seconds={} fails with {:?} (the accepted request wedged the subscription)", secs, e.code()))),
                }
                h.subscriber.delete_subscription(DeleteSubscriptionRequest { subscription: name.clone() }).await.map_err(|e| f("C17+C11", format!("DeleteSubscription of a subscription created with ack_deadline_seconds={} failed: {:?}", secs, e.code())))?;
            }
        }
    }
    // the server keeps serving
    h.publish(t, vec![(vec![1], HashMap::new())]).await.map_err(|e| f("C17", format!("server no longer serves after malformed requests: {:?}", e.code())))?;
    if h.pull("projects/p/subscriptions/mf", 1, true).await.map_err(|e| f("C17", format!("server no longer serves: {:?}", e.code())))?.len() != 1 { return Err(f("C17", "message lost after malformed requests".into())); }
    Ok(())
}

/// C13: token walks through the RPC surface; C09: content identity on every delivery path
async fn s_lists_and_content(h: &mut Host) -> Result<(), Fail> {
    let mut topics = Vec::new();
    for i in 0..5 {
        let other = format!("projects/q/topics/l{}", i);
        h.topic(&other).await.map_err(c10("CreateTopic of an absent, well-formed name"))?;
        let n = format!("projects/lp/topics/l{}", i);
        h.topic(&n).await.map_err(c10("CreateTopic of an absent, well-formed name"))?;
        topics.push(n);
    }
    let hub = topics[0].clone();
    let mut subs = Vec::new();
    for i in 0..5 { let n = format!("projects/lp/subscriptions/l{}", i); h.sub(&n, &hub, 0, None).await.map_err(c10("CreateSubscription of an absent name on an existing topic of the same project"))?; subs.push(n); }
    for size in [1, 2, 5, 0, 1000] {
        let mut tok = String::new();
        let mut got = Vec::new();
        for _ in 0..10 {
            let r = h.publisher.list_topics(ListTopicsRequest { project: "projects/lp".into(), page_size: size, page_token: tok.clone() }).await.map_err(|e| f("C13", format!("ListTopics: {:?}", e.code())))?.into_inner();
            let eff = if size == 0 { 20 } else { size as usize };
            if r.topics.len() > eff { return Err(f("C13", format!("ListTopics page of {} > page size {}", r.topics.len(), eff))); }
            got.extend(r.topics.iter().map(|t| t.name.clone()));
            tok = r.next_page_token;
            if tok.is_empty() { break; }
        }
        if got != topics { return Err(f("C13", format!("ListTopics(page_size={}) walk yields {:?}, expected {:?}", size, got, topics))); }
        let mut tok = String::new();
        let mut got = Vec::new();
        for _ in 0..10 {
            let r = h.subscriber.list_subscriptions(ListSubscriptionsRequest { project: "projects/lp".into(), page_size: size, page_token: tok.clone() }).await.map_err(|e| f("C13", format!("ListSubscriptions: {:?}", e.code())))?.into_inner();
            got.extend(r.subscriptions.iter().map(|t| t.name.clone()));
            tok = r.next_page_token;
            if tok.is_empty() { break; }
        }
        if got != subs { return Err(f("C13", format!("ListSubscriptions(page_size={}) walk yields {:?}, expected {:?}", size, got, subs))); }
        let mut tok = String::new();
        let mut got = Vec::new();
        for _ in 0..10 {
            let r = h.publisher.list_topic_subscriptions(ListTopicSubscriptionsRequest { topic: hub.clone(), page_size: size, page_token: tok.clone() }).await.map_err(|e| f("C13", format!("ListTopicSubscriptions: {:?}", e.code())))?.into_inner();
            got.extend(r.subscriptions.iter().cloned());
            tok = r.next_page_token;
            if tok.is_empty() { break; }
        }
        if got != subs { return Err(f("C13+C11", format!("ListTopicSubscriptions(page_size={}) walk yields {:?}, expected {:?}", size, got, subs))); }
    }
    // content identity (C09) on pull, redelivery and a second subscription
    let attrs: HashMap<String, String> = [("k".to_string(), "v".to_string()), ("k\u{e9}".to_string(), "\u{1F600}".to_string()), ("flag".to_string(), String::new())].into_iter().collect();
    let payloads: Vec<(Vec<u8>, HashMap<String, String>)> = vec![(vec![], HashMap::new()), (vec![0, 255, 1, 254, 0], attrs.clone()), (vec![b'x'; 70_000], HashMap::new()), (vec![], attrs.clone())];
    let ids = h.publish(&hub, payloads.clone()).await.map_err(setup("publish"))?;
    if ids.len() != payloads.len() {
        // one id per submitted message is C08; when the ids that were returned no longer stand for the messages at their
        // positions in the request, the delivery under such an id carries another message's content: C09 as well
        let m = h.pull(&subs[0], 10, true).await.map_err(setup("pull"))?;
        for rm in m.iter() {
            if let Some(pm) = rm.message.as_ref() {
                if let Some(k) = ids.iter().position(|i| *i == pm.message_id) {
                    if k < payloads.len() && (pm.data != payloads[k].0 || pm.attributes != payloads[k].1) {
                        return Err(f("C08+C09", format!("Publish returned {} ids for {} messages, and the id returned at position {} ({:?}) is delivered with {} data bytes / {} attributes (published there: {} / {})", ids.len(), payloads.len(), k, pm.message_id, pm.data.len(), pm.attributes.len(), payloads[k].0.len(), payloads[k].1.len())));
                    }
                }
            }
        }
        return Err(f("C08", format!("Publish returned {} ids for {} messages", ids.len(), payloads.len())));
    }
    {
        let nums: Vec<u128> = ids.iter().map(|i| i.parse::<u128>().unwrap_or(0)).collect();
        if nums.windows(2).any(|w| w[0] >= w[1]) { return Err(f("C08", format!("Publish returned the ids {:?}: not strictly increasing in request order", ids))); }
    }
    let mut first_times = Vec::new();
    for round in 0..2 {
        for sname in [&subs[0], &subs[1]] {
            let m = h.pull(sname, 10, true).await.map_err(setup("pull"))?;
            if m.len() != payloads.len() { return Err(f(if round == 0 { "C01" } else { "C05" }, format!("{}: {} of {} messages delivered (round {}: after a nack of all of them)", sname, m.len(), payloads.len(), round))); }
            for rm in m.iter() {
                let pm = rm.message.as_ref().ok_or_else(|| f("C09", "delivery without message".into()))?;
                let k = ids.iter().position(|i| *i == pm.message_id).ok_or_else(|| f("C09", format!("delivery carries message id {:?}, Publish returned {:?}", pm.message_id, ids)))?;
                if pm.data != payloads[k].0 || pm.attributes != payloads[k].1 { return Err(f("C09", format!("delivery of message {} (published with {} data bytes and {} attributes) carries {} data bytes and the attributes {:?}", k, payloads[k].0.len(), payloads[k].1.len(), pm.data.len(), pm.attributes))); }
                if round == 0 && *sname == subs[0] { first_times.push((pm.message_id.clone(), pm.publish_time.clone())); }
                else if let Some((_, t0)) = first_times.iter().find(|(i, _)| *i == pm.message_id) { if *t0 != pm.publish_time { return Err(f("C09", "publish time differs between deliveries".into())); } }
            }
            if round == 0 { h.modack(sname, m.iter().map(|x| x.ack_id.clone()).collect(), 0).await.map_err(setup("nack"))?; }
        }
    }
    Ok(())
}


/// C15 "returns as soon as at least one message is available": two Pulls are parked, one Publish brings two messages,
/// each Pull takes one (max_messages = 1) - neither may stay parked while a message sits in the queue.
async fn s_two_waiters(h: &mut Host) -> Result<(), Fail> {
    let (t, s) = ("projects/p/topics/tw", "projects/p/subscriptions/tw");
    h.topic(t).await.map_err(c10("CreateTopic of an absent, well-formed name"))?;
    h.sub(s, t, 0, None).await.map_err(c10("CreateSubscription of an absent name on an existing topic of the same project"))?;
    let mut waiters = Vec::new();
    for _ in 0..2 {
        let mut c = h.subscriber.clone();
        waiters.push(tokio::spawn(async move {
            #[allow(deprecated)]
            c.pull(PullRequest { subscription: s.to_string(), return_immediately: false, max_messages: 1 }).await.map(|r| r.into_inner().received_messages)
        }));
        tokio::time::sleep(Duration::from_millis(150)).await;
    }
    h.publish(t, vec![(b"a".to_vec(), HashMap::new()), (b"b".to_vec(), HashMap::new())]).await.map_err(setup("publish"))?;
    let mut got = 0usize;
    for (i, w) in waiters.into_iter().enumerate() {
        match tokio::time::timeout(Duration::from_secs(10), w).await {
            Ok(Ok(Ok(m))) if m.len() == 1 => { got += 1; }
            Ok(Ok(Ok(m))) => return Err(f("C15", format!("parked Pull(max_messages=1) #{} returned {} messages", i, m.len()))),
            Ok(Ok(Err(e))) => return Err(f("C15", format!("parked Pull #{} failed with {:?}", i, e.code()))),
            _ => return Err(f("C15+C06", format!("2 messages published for 2 parked Pull(max_messages=1): Pull #{} is still parked after 10 s although a message is available ({} delivered)", i, got))),
        }
    }
    Ok(())
}

/// minimal HTTP/1.1 endpoint for push deliveries: hands every request body to the scenario and answers 200
async fn push_endpoint() -> Result<(String, tokio::sync::mpsc::UnboundedReceiver<Vec<u8>>), Fail> { push_endpoint_delayed(0).await }
/// `delay_ms`: the endpoint answers each request only after that long (a slow consumer)
pub(crate) async fn push_endpoint_delayed(delay_ms: u64) -> Result<(String, tokio::sync::mpsc::UnboundedReceiver<Vec<u8>>), Fail> { push_endpoint_scripted(delay_ms, Vec::new()).await }
/// `statuses`: the k-th request (over all connections) is answered with statuses[k]; 200 once the script is used up
pub(crate) async fn push_endpoint_scripted(delay_ms: u64, statuses: Vec<u16>) -> Result<(String, tokio::sync::mpsc::UnboundedReceiver<Vec<u8>>), Fail> {
    use tokio::io::{AsyncReadExt, AsyncWriteExt};
    let statuses = Arc::new(statuses);
    let counter = Arc::new(std::sync::atomic::AtomicUsize::new(0));
    let l = tokio::net::TcpListener::bind("127.0.0.1:0").await.map_err(setup("bind push endpoint"))?;
    let port = l.local_addr().map_err(setup("addr"))?.port();
    let (tx, rx) = tokio::sync::mpsc::unbounded_channel::<Vec<u8>>();
    tokio::spawn(async move {
        loop {
            let (mut sock, _) = match l.accept().await { Ok(x) => x, Err(_) => return };
            let tx = tx.clone();
            let (statuses, counter) = (Arc::clone(&statuses), Arc::clone(&counter));
            tokio::spawn(async move {
                let mut buf: Vec<u8> = Vec::new();
                loop {
                    // one request: headers up to CRLFCRLF, then Content-Length bytes
                    let head_end = loop {
                        if let Some(p) = buf.windows(4).position(|w| w == b"\r\n\r\n") { break p + 4; }
                        let mut chunk = [0u8; 8192];
                        match sock.read(&mut chunk).await { Ok(0) | Err(_) => return, Ok(n) => buf.extend_from_slice(&chunk[..n]) }
                    };
                    let head = String::from_utf8_lossy(&buf[..head_end]).to_ascii_lowercase();
                    let len: usize = head.lines().find_map(|l| l.strip_prefix("content-length:").map(|v| v.trim().parse().unwrap_or(0))).unwrap_or(0);
                    while buf.len() < head_end + len {
                        let mut chunk = [0u8; 8192];
                        match sock.read(&mut chunk).await { Ok(0) | Err(_) => return, Ok(n) => buf.extend_from_slice(&chunk[..n]) }
                    }
                    let body = buf[head_end..head_end + len].to_vec();
                    buf.drain(..head_end + len);
                    let _ = tx.send(body);
                    if delay_ms > 0 { tokio::time::sleep(Duration::from_millis(delay_ms)).await; }
                    let k = counter.fetch_add(1, std::sync::atomic::Ordering::SeqCst);
                    let status = statuses.get(k).copied().unwrap_or(200);
                    if sock.write_all(format!("HTTP/1.1 {} X\r\ncontent-length: 0\r\n\r\n", status).as_bytes()).await.is_err() { return; }
                }
            });
        }
    });
    Ok((format!("http://127.0.0.1:{}/push", port), rx))
}

/// C09 on the HTTP push path: the JSON names the subscription and carries the standard-base64 data, the attributes and
/// the message id that Publish returned
async fn s_push_content(h: &mut Host) -> Result<(), Fail> {
    use base64::Engine;
    let (t, s) = ("projects/p/topics/pc", "projects/p/subscriptions/pc");
    let (url, mut rx) = push_endpoint().await?;
    h.topic(t).await.map_err(c10("CreateTopic of an absent, well-formed name"))?;
    let cfg_attrs: HashMap<String, String> = [("x-goog-version".to_string(), "v1".to_string())].into_iter().collect();
    h.push_sub(s, t, &url, cfg_attrs).await.map_err(c10("CreateSubscription (push) of an absent name on an existing topic"))?;
    let attrs: HashMap<String, String> = [("k".to_string(), "v".to_string()), ("k\u{e9}".to_string(), "\u{1F600}".to_string()), ("flag".to_string(), String::new())].into_iter().collect();
    let payloads: Vec<(Vec<u8>, HashMap<String, String>)> = vec![
        (b"Hello".to_vec(), HashMap::new()),
        (b"Is this ok???>>~~".to_vec(), attrs.clone()),
        (vec![0xfb, 0xff, 0xfe, 0xfb, 0xef, 0xbe], HashMap::new()),
        ((0..=255u8).collect(), attrs.clone()),
        (vec![1], HashMap::new()), (vec![1, 2], HashMap::new()),
    ];
    let ids = h.publish(t, payloads.clone()).await.map_err(setup("publish"))?;
    let mut seen = vec![false; payloads.len()];
    jump(Duration::from_secs(1)).await;
    while seen.iter().any(|x| !*x) {
        let body = match tokio::time::timeout(Duration::from_secs(10), rx.recv()).await {
            Ok(Some(b)) => b,
            _ => return Err(f("SETUP", format!("push endpoint received {} of {} messages within 10 s", seen.iter().filter(|x| **x).count(), payloads.len()))),
        };
        let v: serde_json::Value = serde_json::from_slice(&body).map_err(|e| f("C09", format!("push body is not JSON: {}", e)))?;
        if v["subscription"].as_str() != Some(s) { return Err(f("C09", format!("push payload names the subscription {:?}, expected {:?}", v["subscription"], s))); }
        let mid = v["message"]["messageId"].as_str().unwrap_or("").to_string();
        let k = ids.iter().position(|i| *i == mid).ok_or_else(|| f("C09", format!("push payload carries message id {:?}, Publish returned {:?}", mid, ids)))?;
        if v["message"]["message_id"].as_str() != Some(mid.as_str()) { return Err(f("C09", "push payload: message_id and messageId differ".into())); }
        let data = v["message"]["data"].as_str().unwrap_or("<missing>");
        match base64::engine::general_purpose::STANDARD.decode(data) {
            Ok(bytes) if bytes == payloads[k].0 => {}
            Ok(bytes) => return Err(f("C09", format!("push payload data {:?} decodes to {:?}, published {:?}", data, bytes, payloads[k].0))),
            Err(e) => return Err(f("C09", format!("push payload data {:?} for published bytes {:?} is not standard base64: {}", data, payloads[k].0, e))),
        }
        let got_attrs: HashMap<String, String> = v["message"]["attributes"].as_object().map(|o| o.iter().map(|(a, b)| (a.clone(), b.as_str().unwrap_or("").to_string())).collect()).unwrap_or_default();
        if got_attrs != payloads[k].1 { return Err(f("C09", format!("push payload attributes {:?}, published {:?}", got_attrs, payloads[k].1))); }
        seen[k] = true;
    }
    Ok(())
}

/// C13 through the RPC surface with enough resources that page tokens take many different values
async fn s_long_walk(h: &mut Host) -> Result<(), Fail> {
    let mut topics = Vec::new();
    for i in 0..1003 { let n = format!("projects/lw/topics/t{}", i); h.topic(&n).await.map_err(c10("CreateTopic of an absent, well-formed name"))?; topics.push(n); }
    for size in [1, 7, 250, 0, 1000, 1001, i32::MAX] {
        let eff = if size == 0 { 20 } else if size > 1000 { 1000 } else { size };
        let mut tok = String::new();
        let mut got = Vec::new();
        for _ in 0..1100 {
            let r = match h.publisher.list_topics(ListTopicsRequest { project: "projects/lw".into(), page_size: size, page_token: tok.clone() }).await {
                Ok(r) => r.into_inner(),
                Err(e) => return Err(f("C13", format!("ListTopics(page_size={}) rejected the server-issued token {:?} after {} topics: {:?}", size, tok, got.len(), e.code()))),
            };
            if r.topics.len() > eff as usize { return Err(f("C13", format!("ListTopics page of {} > effective page size {}", r.topics.len(), eff))); }
            got.extend(r.topics.iter().map(|t| t.name.clone()));
            tok = r.next_page_token;
            if tok.is_empty() { break; }
        }
        if got != topics { return Err(f("C13", format!("ListTopics(page_size={}) walk over 1003 topics yields {} names (first difference at {:?})", size, got.len(), got.iter().zip(topics.iter()).position(|(a, b)| a != b)))); }
    }
    // one page with more subscriptions than a task's cooperative budget (128 operations): still in creation order
    let hub = topics[0].clone();
    let mut subs = Vec::new();
    for i in 0..150 { let n = format!("projects/lw/subscriptions/s{}", i); h.sub(&n, &hub, 0, None).await.map_err(c10("CreateSubscription of an absent name on an existing topic of the same project"))?; subs.push(n); }
    for size in [1000, 64] {
        let mut tok = String::new();
        let mut got = Vec::new();
        for _ in 0..10 {
            let r = h.subscriber.list_subscriptions(ListSubscriptionsRequest { project: "projects/lw".into(), page_size: size, page_token: tok.clone() }).await.map_err(|e| f("C13", format!("ListSubscriptions: {:?}", e.code())))?.into_inner();
            got.extend(r.subscriptions.iter().map(|x| x.name.clone()));
            tok = r.next_page_token;
            if tok.is_empty() { break; }
        }
        if got != subs { return Err(f("C13", format!("ListSubscriptions(page_size={}) over 150 subscriptions: {} names, first difference from creation order at {:?}", size, got.len(), got.iter().zip(subs.iter()).position(|(a, b)| a != b)))); }
    }
    // more subscriptions on one topic than the largest effective page: requested sizes above the cap must still walk on
    for i in 150..1003 { let n = format!("projects/lw/subscriptions/s{}", i); h.sub(&n, &hub, 0, None).await.map_err(c10("CreateSubscription of an absent name on an existing topic of the same project"))?; subs.push(n); }
    for size in [1000, 1001, 5000, i32::MAX] {
        for which in 0..2 {
            let mut tok = String::new();
            let mut got: Vec<String> = Vec::new();
            for _ in 0..10 {
                let (names, next) = if which == 0 {
                    let r = h.publisher.list_topic_subscriptions(ListTopicSubscriptionsRequest { topic: hub.clone(), page_size: size, page_token: tok.clone() }).await.map_err(|e| f("C13", format!("ListTopicSubscriptions: {:?}", e.code())))?.into_inner();
                    (r.subscriptions.clone(), r.next_page_token)
                } else {
                    let r = h.subscriber.list_subscriptions(ListSubscriptionsRequest { project: "projects/lw".into(), page_size: size, page_token: tok.clone() }).await.map_err(|e| f("C13", format!("ListSubscriptions: {:?}", e.code())))?.into_inner();
                    (r.subscriptions.iter().map(|x| x.name.clone()).collect(), r.next_page_token)
                };
                if names.len() > 1000 { return Err(f("C13", format!("a page of {} subscriptions (effective page size 1000)", names.len()))); }
                got.extend(names);
                tok = next;
                if tok.is_empty() { break; }
            }
            if got != subs { return Err(f(if which == 0 { "C13+C11" } else { "C13" }, format!("{}(page_size={}) over 1003 subscriptions of one topic: following the tokens yields {} names (first difference from creation order at {:?})", if which == 0 { "ListTopicSubscriptions" } else { "ListSubscriptions" }, size, got.len(), got.iter().zip(subs.iter()).position(|(a, b)| a != b)))); }
        }
    }
    Ok(())
}


/// C01 / C03 / C08 / C11 across consumers of one subscription: an open StreamingPull receives what is published, in
/// publish order and under the ids Publish returned; what it holds is not handed to a unary Pull; a deleted
/// subscription leaves its topic's list and a second subscription keeps its own copies
async fn s_cross_consumers(h: &mut Host) -> Result<(), Fail> {
    let (t, s, s2) = ("projects/p/topics/cc", "projects/p/subscriptions/cc", "projects/p/subscriptions/cc2");
    h.topic(t).await.map_err(c10("CreateTopic of an absent, well-formed name"))?;
    h.sub(s, t, 0, None).await.map_err(c10("CreateSubscription of an absent name on an existing topic of the same project"))?;
    h.sub(s2, t, 0, None).await.map_err(c10("CreateSubscription of an absent name on an existing topic of the same project"))?;
    let (_tx, mut rx) = tokio::sync::mpsc::channel::<StreamingPullRequest>(16);
    let first = StreamingPullRequest { subscription: s.to_string(), ack_ids: vec![], modify_deadline_seconds: vec![], modify_deadline_ack_ids: vec![], stream_ack_deadline_seconds: 0, client_id: "c".into(), max_outstanding_messages: 10, max_outstanding_bytes: 100_000_000 };
    let mut inbound = h.subscriber.streaming_pull(async_stream::stream! { yield first; while let Some(r) = rx.recv().await { yield r; } }).await.map_err(setup("streaming_pull"))?.into_inner();
    tokio::time::sleep(Duration::from_millis(100)).await;
    let mut all_ids = Vec::new();
    for batch in 0..2u8 {
        let ids = h.publish(t, (0..3u8).map(|i| (vec![batch, i], HashMap::new())).collect()).await.map_err(setup("publish"))?;
        if ids.len() != 3 { return Err(f("C08", format!("Publish returned {} ids for 3 messages", ids.len()))); }
        all_ids.extend(ids);
    }
    let mut got: Vec<(String, Vec<u8>)> = Vec::new();
    while got.len() < 6 {
        match tokio::time::timeout(Duration::from_secs(10), inbound.message()).await {
            Ok(Ok(Some(r))) => for m in r.received_messages { let pm = m.message.unwrap_or_default(); got.push((pm.message_id, pm.data)); },
            Ok(Ok(None)) | Ok(Err(_)) => return Err(f("C01", format!("an open StreamingPull ended after {} of 6 published messages", got.len()))),
            Err(_) => return Err(f("C01+C06", format!("an open StreamingPull received {} of 6 published messages within 10 s", got.len()))),
        }
    }
    let got_ids: Vec<String> = got.iter().map(|g| g.0.clone()).collect();
    if got_ids != all_ids { return Err(f("C08", format!("first deliveries on the stream carry the ids {:?}, Publish returned {:?} (in this order)", got_ids, all_ids))); }
    for (k, g) in got.iter().enumerate() { if g.1 != vec![(k / 3) as u8, (k % 3) as u8] { return Err(f("C09+C08", format!("delivery {} carries data {:?}", k, g.1))); } }
    // everything is leased to the stream: a unary Pull gets nothing (C03); the second subscription has its own copies (C01/C02)
    let dup = h.pull(s, 10, true).await.map_err(setup("pull"))?;
    if !dup.is_empty() { return Err(f("C03", format!("{} messages leased to an open StreamingPull were also handed to a unary Pull", dup.len()))); }
    let other = h.pull(s2, 10, true).await.map_err(setup("pull"))?;
    if other.len() != 6 { return Err(f("C01", format!("the second subscription of the topic received {} of 6 messages", other.len()))); }
    // delete the first subscription: it leaves the topic's list, the other stays (C11)
    h.subscriber.delete_subscription(DeleteSubscriptionRequest { subscription: s.into() }).await.map_err(|e| f("C11+C10", format!("DeleteSubscription failed: {:?}", e.code())))?;
    let l = h.publisher.list_topic_subscriptions(ListTopicSubscriptionsRequest { topic: t.into(), page_size: 10, page_token: String::new() }).await.map_err(|e| f("C11", format!("ListTopicSubscriptions: {:?}", e.code())))?.into_inner();
    if l.subscriptions != vec![s2.to_string()] { return Err(f("C11", format!("after DeleteSubscription the topic lists {:?}, expected [{:?}]", l.subscriptions, s2))); }
    let l = h.subscriber.list_subscriptions(ListSubscriptionsRequest { project: "projects/p".into(), page_size: 1000, page_token: String::new() }).await.map_err(|e| f("C13", format!("ListSubscriptions: {:?}", e.code())))?.into_inner();
    if l.subscriptions.iter().any(|x| x.name == s) { return Err(f("C11+C10", "a deleted subscription is still listed in its project".into())); }
    // publishing afterwards reaches only the remaining subscription
    h.publish(t, vec![(vec![9], HashMap::new())]).await.map_err(setup("publish"))?;
    h.ack(s2, other.iter().map(|m| m.ack_id.clone()).collect()).await.map_err(setup("ack"))?;
    let more = h.pull(s2, 10, true).await.map_err(setup("pull"))?;
    if more.len() != 1 { return Err(f("C01+C02", format!("after acknowledging 6 and publishing 1, the remaining subscription delivers {} messages", more.len()))); }
    Ok(())
}


/// C01 with an open, promptly acknowledging StreamingPull and several publishers at once: every accepted message
/// reaches the stream without any further client request
async fn s_stream_concurrent_publish(h: &mut Host) -> Result<(), Fail> {
    let (t, s) = ("projects/p/topics/scp", "projects/p/subscriptions/scp");
    h.topic(t).await.map_err(c10("CreateTopic of an absent, well-formed name"))?;
    h.sub(s, t, 0, None).await.map_err(c10("CreateSubscription of an absent name on an existing topic of the same project"))?;
    let (tx, mut rx) = tokio::sync::mpsc::channel::<StreamingPullRequest>(64);
    let first = StreamingPullRequest { subscription: s.to_string(), ack_ids: vec![], modify_deadline_seconds: vec![], modify_deadline_ack_ids: vec![], stream_ack_deadline_seconds: 0, client_id: "c".into(), max_outstanding_messages: 100, max_outstanding_bytes: 100_000_000 };
    let mut inbound = h.subscriber.streaming_pull(async_stream::stream! { yield first; while let Some(r) = rx.recv().await { yield r; } }).await.map_err(setup("streaming_pull"))?.into_inner();
    let (seen_tx, mut seen_rx) = tokio::sync::mpsc::unbounded_channel::<String>();
    let consumer = tokio::spawn(async move {
        while let Ok(Some(r)) = inbound.message().await {
            let acks: Vec<String> = r.received_messages.iter().map(|m| m.ack_id.clone()).collect();
            for m in r.received_messages.iter() { let _ = seen_tx.send(m.message.as_ref().map(|x| x.message_id.clone()).unwrap_or_default()); }
            if tx.send(StreamingPullRequest { subscription: String::new(), ack_ids: acks, modify_deadline_seconds: vec![], modify_deadline_ack_ids: vec![], stream_ack_deadline_seconds: 0, client_id: String::new(), max_outstanding_messages: 0, max_outstanding_bytes: 0 }).await.is_err() { break; }
        }
    });
    tokio::time::sleep(Duration::from_millis(100)).await;
    let mut seen = std::collections::HashSet::new();
    let mut result = Ok(());
    'rounds: for round in 0..6 {
        let pubs = (0..4).map(|i| { let mut p = h.publisher.clone(); async move {
            p.publish(PublishRequest { topic: t.to_string(), messages: vec![PubsubMessage { publish_time: None, attributes: Default::default(), message_id: String::new(), ordering_key: String::new(), data: vec![round as u8, i as u8] }] }).await.map(|r| r.into_inner().message_ids)
        } });
        let mut accepted = std::collections::HashSet::new();
        for r in futures::future::join_all(pubs).await { match r { Ok(ids) => accepted.extend(ids), Err(e) => { result = Err(f("C01", format!("Publish failed: {:?}", e.code()))); break 'rounds; } } }
        let wait = async { while !accepted.is_subset(&seen) { match seen_rx.recv().await { Some(x) => { seen.insert(x); } None => break } } };
        if tokio::time::timeout(Duration::from_secs(5), wait).await.is_err() {
            let mut missing: Vec<&String> = accepted.difference(&seen).collect();
            missing.sort();
            result = Err(f("C01+C06", format!("round {}: 4 concurrent Publish calls returned ids, but the open (acknowledging) StreamingPull never received {:?} within 5 s", round, missing)));
            break;
        }
    }
    consumer.abort();
    result
}


/// C15 "returns as soon as at least one message is available", with real parallelism: a unary Pull and a Publish are
/// issued at the same moment on a multi-threaded runtime, many times; every Pull must come back with the message
async fn s_pull_publish_race(h: &mut Host) -> Result<(), Fail> {
    let (t, s) = ("projects/p/topics/ppr", "projects/p/subscriptions/ppr");
    h.topic(t).await.map_err(c10("CreateTopic of an absent, well-formed name"))?;
    h.sub(s, t, 0, None).await.map_err(c10("CreateSubscription of an absent name on an existing topic of the same project"))?;
    for round in 0..150 {
        let mut sc = h.subscriber.clone();
        let pull = tokio::spawn(async move {
            #[allow(deprecated)]
            sc.pull(PullRequest { subscription: s.to_string(), return_immediately: false, max_messages: 10 }).await.map(|r| r.into_inner().received_messages)
        });
        let mut pc = h.publisher.clone();
        let publish = tokio::spawn(async move {
            pc.publish(PublishRequest { topic: t.to_string(), messages: vec![PubsubMessage { publish_time: None, attributes: Default::default(), message_id: String::new(), ordering_key: String::new(), data: vec![1] }] }).await.map(|_| ())
        });
        match tokio::time::timeout(Duration::from_secs(5), pull).await {
            Ok(Ok(Ok(m))) if m.len() == 1 => { h.ack(s, m.iter().map(|x| x.ack_id.clone()).collect()).await.map_err(setup("ack"))?; }
            Ok(Ok(Ok(m))) => return Err(f("C15", format!("round {}: a Pull racing one Publish returned {} messages", round, m.len()))),
            Ok(Ok(Err(e))) => return Err(f("C15", format!("round {}: Pull failed with {:?}", round, e.code()))),
            _ => return Err(f("C15+C06", format!("round {}: a Pull issued together with a Publish is still blocked after 5 s although the message is available", round))),
        }
        let _ = publish.await;
    }
    Ok(())
}


/// C01 / C03 with several StreamingPull streams on ONE subscription: every published message reaches exactly one of
/// them (none is lost, none is held by two streams at once), each response respects its stream's limit (C15)
async fn s_multi_stream(h: &mut Host) -> Result<(), Fail> {
    let (t, s) = ("projects/p/topics/ms", "projects/p/subscriptions/ms");
    h.topic(t).await.map_err(c10("CreateTopic of an absent, well-formed name"))?;
    h.sub(s, t, 0, None).await.map_err(c10("CreateSubscription of an absent name on an existing topic of the same project"))?;
    let (seen_tx, mut seen_rx) = tokio::sync::mpsc::unbounded_channel::<(usize, String, usize)>();
    let mut consumers = Vec::new();
    for k in 0..3usize {
        let (tx, mut rx) = tokio::sync::mpsc::channel::<StreamingPullRequest>(64);
        let first = StreamingPullRequest { subscription: s.to_string(), ack_ids: vec![], modify_deadline_seconds: vec![], modify_deadline_ack_ids: vec![], stream_ack_deadline_seconds: 0, client_id: format!("c{}", k), max_outstanding_messages: 5, max_outstanding_bytes: 100_000_000 };
        let mut inbound = h.subscriber.streaming_pull(async_stream::stream! { yield first; while let Some(r) = rx.recv().await { yield r; } }).await.map_err(setup("streaming_pull"))?.into_inner();
        let seen_tx = seen_tx.clone();
        consumers.push(tokio::spawn(async move {
            while let Ok(Some(r)) = inbound.message().await {
                let n = r.received_messages.len();
                let acks: Vec<String> = r.received_messages.iter().map(|m| m.ack_id.clone()).collect();
                for m in r.received_messages.iter() { let _ = seen_tx.send((k, m.message.as_ref().map(|x| x.message_id.clone()).unwrap_or_default(), n)); }
                // hold the lease for a moment before acknowledging: the other streams must not get these messages meanwhile
                tokio::time::sleep(Duration::from_millis(30)).await;
                if tx.send(StreamingPullRequest { subscription: String::new(), ack_ids: acks, modify_deadline_seconds: vec![], modify_deadline_ack_ids: vec![], stream_ack_deadline_seconds: 0, client_id: String::new(), max_outstanding_messages: 0, max_outstanding_bytes: 0 }).await.is_err() { break; }
            }
        }));
    }
    tokio::time::sleep(Duration::from_millis(150)).await;
    let mut all = Vec::new();
    for b in 0..4u8 { all.extend(h.publish(t, (0..10u8).map(|i| (vec![b, i], HashMap::new())).collect()).await.map_err(setup("publish"))?); }
    let mut got: HashMap<String, usize> = HashMap::new();
    let mut result = Ok(());
    let wait = async {
        while got.len() < all.len() {
            match seen_rx.recv().await {
                Some((k, id, n)) => {
                    if n > 5 { return Err(f("C15", format!("a StreamingPull response carries {} messages, max_outstanding_messages = 5", n))); }
                    if let Some(k0) = got.insert(id.clone(), k) { return Err(f("C03+C02", format!("message {} was delivered to stream {} and, before any deadline passed, again to stream {}", id, k0, k))); }
                }
                None => break,
            }
        }
        Ok(())
    };
    match tokio::time::timeout(Duration::from_secs(8), wait).await {
        Ok(Err(e)) => result = Err(e),
        Ok(Ok(())) => {}
        Err(_) => result = Err(f("C01+C06", format!("3 open StreamingPull streams on one subscription received {} of {} published messages within 8 s", got.len(), all.len()))),
    }
    if result.is_ok() { for id in all.iter() { if !got.contains_key(id) { result = Err(f("C01", format!("message {} reached none of the 3 streams", id))); break; } } }
    for c in consumers { c.abort(); }
    result
}


/// Large requests (C02, C05, C17): one unary Acknowledge with 1500 ack ids acknowledges all of them; one in-stream
/// ModifyAckDeadline with 1200 entries whose LAST entry is malformed is rejected without applying any of the others
async fn s_large_requests(h: &mut Host) -> Result<(), Fail> {
    let (t, s) = ("projects/p/topics/lr", "projects/p/subscriptions/lr");
    h.topic(t).await.map_err(c10("CreateTopic of an absent, well-formed name"))?;
    h.sub(s, t, 0, None).await.map_err(c10("CreateSubscription of an absent name on an existing topic of the same project"))?;
    let mut published = Vec::new();
    for b in 0..3u8 { published.extend(h.publish(t, (0..500u32).map(|i| (vec![b, (i >> 8) as u8, i as u8], HashMap::new())).collect()).await.map_err(setup("publish"))?); }
    // a StreamingPull with a window of 10000 takes the whole backlog of 1500: first deliveries in publish order (C08)
    let mut held = Vec::new();
    let first = StreamingPullRequest { subscription: s.to_string(), ack_ids: vec![], modify_deadline_seconds: vec![], modify_deadline_ack_ids: vec![], stream_ack_deadline_seconds: 0, client_id: "c".into(), max_outstanding_messages: 10_000, max_outstanding_bytes: 1_000_000_000 };
    let mut inbound = h.subscriber.streaming_pull(async_stream::stream! { yield first; futures::future::pending::<()>().await; }).await.map_err(setup("streaming_pull"))?.into_inner();
    while held.len() < 1500 {
        match tokio::time::timeout(Duration::from_secs(10), inbound.message()).await {
            Ok(Ok(Some(r))) => held.extend(r.received_messages),
            Ok(Ok(None)) | Ok(Err(_)) => return Err(f("C01", format!("an open StreamingPull ended after {} of 1500 messages", held.len()))),
            Err(_) => return Err(f("C01+C06", format!("an open StreamingPull (window 10000) received {} of 1500 queued messages within 10 s", held.len()))),
        }
    }
    {
        let got: Vec<String> = held.iter().map(|m| m.message.as_ref().map(|x| x.message_id.clone()).unwrap_or_default()).collect();
        if got != published { return Err(f("C08", format!("1500 queued messages streamed to one consumer: first difference from publish order at position {:?} (delivered id {:?}, published id {:?})", got.iter().zip(published.iter()).position(|(a, b)| a != b), got.iter().zip(published.iter()).find(|(a, b)| a != b).map(|x| x.0.clone()), got.iter().zip(published.iter()).find(|(a, b)| a != b).map(|x| x.1.clone())))); }
    }
    // one unary Acknowledge names all 1500 deliveries: none of them comes back, neither on the open stream nor to a Pull
    h.ack(s, held.iter().map(|m| m.ack_id.clone()).collect()).await.map_err(|e| f("C02", format!("Acknowledge of 1500 ack ids failed: {:?}", e.code())))?;
    jump(Duration::from_secs(12)).await;
    let mut back = h.pull(s, 1000, true).await.map_err(setup("pull"))?.len();
    for _ in 0..5 { match tokio::time::timeout(Duration::from_millis(300), inbound.message()).await { Ok(Ok(Some(r))) => back += r.received_messages.len(), _ => break } }
    if back > 0 { return Err(f("C02", format!("one Acknowledge request named 1500 outstanding deliveries and returned OK; {} of them were delivered again after the deadline", back))); }
    drop(inbound);
    // in-stream modack: 3 live deliveries nacked in the first entries, 1196 unknown ids, and a malformed id at the very end
    // (on a fresh subscription: the server side of the first stream may still be winding down)
    let (t, s) = ("projects/p/topics/lr2", "projects/p/subscriptions/lr2");
    h.topic(t).await.map_err(c10("CreateTopic of an absent, well-formed name"))?;
    h.sub(s, t, 0, None).await.map_err(c10("CreateSubscription of an absent name on an existing topic of the same project"))?;
    h.publish(t, (0..3u8).map(|i| (vec![9, i], HashMap::new())).collect()).await.map_err(setup("publish"))?;
    let live = h.pull(s, 10, true).await.map_err(setup("pull"))?;
    if live.len() != 3 { return Err(f("SETUP", format!("expected 3 messages, got {}", live.len()))); }
    let mut ids: Vec<String> = live.iter().map(|m| m.ack_id.clone()).collect();
    for k in 0..1196u64 { ids.push((5_000_000 + k).to_string()); }
    ids.push("not-an-ack-id".to_string());
    let secs = vec![0i32; ids.len()];
    let first = StreamingPullRequest { subscription: s.to_string(), ack_ids: vec![], modify_deadline_seconds: vec![], modify_deadline_ack_ids: vec![], stream_ack_deadline_seconds: 0, client_id: "c".into(), max_outstanding_messages: 10, max_outstanding_bytes: 100_000_000 };
    let bad = StreamingPullRequest { subscription: String::new(), ack_ids: vec![], modify_deadline_seconds: secs, modify_deadline_ack_ids: ids, stream_ack_deadline_seconds: 0, client_id: String::new(), max_outstanding_messages: 0, max_outstanding_bytes: 0 };
    let mut inbound = h.subscriber.streaming_pull(async_stream::stream! { yield first; yield bad; futures::future::pending::<()>().await; }).await.map_err(setup("streaming_pull"))?.into_inner();
    let mut rejected = false;
    let mut leaked = 0usize;
    for _ in 0..4 {
        match tokio::time::timeout(Duration::from_secs(5), inbound.message()).await {
            Ok(Err(e)) if e.code() == Code::InvalidArgument => { rejected = true; break; }
            Ok(Err(e)) => return Err(f("C17+C05", format!("a control message with a malformed ack id ended the stream with {:?} instead of INVALID_ARGUMENT", e.code()))),
            Ok(Ok(Some(r))) => leaked += r.received_messages.len(),
            _ => break,
        }
    }
    if !rejected { return Err(f("C17+C05", "a StreamingPull control message whose last of 1200 modifications is malformed was not rejected with INVALID_ARGUMENT".into())); }
    let after = h.pull(s, 10, true).await.map_err(setup("pull"))?;
    if leaked + after.len() > 0 { return Err(f("C05+C17", format!("a control message rejected with INVALID_ARGUMENT still applied {} of its modifications (nacked deliveries are back in the queue)", leaked + after.len()))); }
    Ok(())
}

/// C03 / C05: one in-stream control message that gives up one lease (N=0) and extends another (N=60), with ack ids
/// whose text order differs from their numeric order ("9" and "10")
async fn s_stream_mixed_modack(h: &mut Host) -> Result<(), Fail> {
    let (t, s) = ("projects/p/topics/smm", "projects/p/subscriptions/smm");
    h.topic(t).await.map_err(c10("CreateTopic of an absent, well-formed name"))?;
    h.sub(s, t, 0, None).await.map_err(c10("CreateSubscription of an absent name on an existing topic of the same project"))?;
    h.publish(t, (1..=10u8).map(|i| (vec![i], HashMap::new())).collect()).await.map_err(setup("publish"))?;
    let held = h.pull(s, 10, true).await.map_err(setup("pull"))?;
    if held.len() != 10 { return Err(f("SETUP", format!("expected 10 messages, got {}", held.len()))); }
    let by_data = |d: u8| held.iter().find(|m| m.message.as_ref().map(|x| x.data == vec![d]).unwrap_or(false)).map(|m| m.ack_id.clone());
    let (a9, a10) = match (by_data(9), by_data(10)) { (Some(a), Some(b)) => (a, b), _ => return Err(f("C09", "deliveries do not carry the published data".into())) };
    let first = StreamingPullRequest { subscription: s.to_string(), ack_ids: vec![], modify_deadline_seconds: vec![], modify_deadline_ack_ids: vec![], stream_ack_deadline_seconds: 0, client_id: "c".into(), max_outstanding_messages: 10, max_outstanding_bytes: 100_000_000 };
    let ctl = StreamingPullRequest { subscription: String::new(), ack_ids: vec![], modify_deadline_seconds: vec![0, 60], modify_deadline_ack_ids: vec![a9, a10], stream_ack_deadline_seconds: 0, client_id: String::new(), max_outstanding_messages: 0, max_outstanding_bytes: 0 };
    let mut inbound = h.subscriber.streaming_pull(async_stream::stream! { yield first; yield ctl; futures::future::pending::<()>().await; }).await.map_err(setup("streaming_pull"))?.into_inner();
    match tokio::time::timeout(Duration::from_secs(5), inbound.message()).await {
        Ok(Ok(Some(r))) => {
            let datas: Vec<Vec<u8>> = r.received_messages.iter().map(|m| m.message.as_ref().map(|x| x.data.clone()).unwrap_or_default()).collect();
            if datas != vec![vec![9u8]] { return Err(f("C05+C03", format!("control message [nack delivery of message 9, extend delivery of message 10 by 60 s]: the stream was handed {:?}, expected exactly message 9", datas))); }
        }
        _ => return Err(f("C05", "control message [nack message 9, extend message 10]: the nacked message did not come back".into())),
    }
    jump(Duration::from_secs(30)).await;    // every other original lease (10 s) has expired by now, the extended one has not
    let mut datas: Vec<u8> = Vec::new();
    for _ in 0..20 {
        match tokio::time::timeout(Duration::from_millis(300), inbound.message()).await { Ok(Ok(Some(r))) => datas.extend(r.received_messages.iter().map(|m| m.message.as_ref().map(|x| x.data[0]).unwrap_or(0))), _ => break }
    }
    if datas.contains(&10) { return Err(f("C05+C03", "a delivery extended by 60 s was handed out again after 30 s".into())); }
    Ok(())
}

/// C02 / C05 with one ack id listed twice in one streaming control message: an ack is final although the same message
/// also extends that lease; an extension followed by a nack of the same lease in one message requeues it
async fn s_stream_same_id(h: &mut Host) -> Result<(), Fail> {
    let (t, s) = ("projects/p/topics/ssi", "projects/p/subscriptions/ssi");
    h.topic(t).await.map_err(c10("CreateTopic of an absent, well-formed name"))?;
    h.sub(s, t, 0, None).await.map_err(c10("CreateSubscription of an absent name on an existing topic of the same project"))?;
    h.publish(t, (1..=4u8).map(|i| (vec![i], HashMap::new())).collect()).await.map_err(setup("publish"))?;
    let held = h.pull(s, 10, true).await.map_err(setup("pull"))?;
    if held.len() != 4 { return Err(f("SETUP", format!("expected 4 messages, got {}", held.len()))); }
    let by_data = |d: u8| held.iter().find(|m| m.message.as_ref().map(|x| x.data == vec![d]).unwrap_or(false)).map(|m| m.ack_id.clone());
    let (a1, a2) = match (by_data(1), by_data(2)) { (Some(a), Some(b)) => (a, b), _ => return Err(f("C09", "deliveries do not carry the published data".into())) };
    let first = StreamingPullRequest { subscription: s.to_string(), ack_ids: vec![], modify_deadline_seconds: vec![], modify_deadline_ack_ids: vec![], stream_ack_deadline_seconds: 0, client_id: "c".into(), max_outstanding_messages: 10, max_outstanding_bytes: 0 };
    let ctl1 = StreamingPullRequest { subscription: String::new(), ack_ids: vec![a1.clone()], modify_deadline_seconds: vec![30], modify_deadline_ack_ids: vec![a1], stream_ack_deadline_seconds: 30, client_id: String::new(), max_outstanding_messages: 0, max_outstanding_bytes: 0 };
    let ctl2 = StreamingPullRequest { subscription: String::new(), ack_ids: vec![], modify_deadline_seconds: vec![30, 0], modify_deadline_ack_ids: vec![a2.clone(), a2], stream_ack_deadline_seconds: 0, client_id: String::new(), max_outstanding_messages: 0, max_outstanding_bytes: 0 };
    let mut inbound = h.subscriber.streaming_pull(async_stream::stream! { yield first; yield ctl1; yield ctl2; futures::future::pending::<()>().await; }).await.map_err(setup("streaming_pull"))?.into_inner();
    match tokio::time::timeout(Duration::from_secs(5), inbound.message()).await {
        Ok(Ok(Some(r))) => {
            let datas: Vec<Vec<u8>> = r.received_messages.iter().map(|m| m.message.as_ref().map(|x| x.data.clone()).unwrap_or_default()).collect();
            if datas != vec![vec![2u8]] { return Err(f("C05+C03", format!("control message [extend delivery of message 2 by 30 s, then nack the same delivery]: the stream was handed {:?}, expected exactly message 2", datas))); }
        }
        Ok(Err(e)) => return Err(f("C05+C17", format!("control message [extend a delivery by 30 s, nack the same delivery]: the stream failed with {:?}", e.code()))),
        _ => return Err(f("C05", "control message [extend delivery of message 2 by 30 s, then nack the same delivery (0 s)]: the nacked message did not come back within 5 s".into())),
    }
    jump(Duration::from_secs(45)).await;    // an extension by 30 s applied to the acknowledged delivery would have run out by now
    let mut datas: Vec<u8> = Vec::new();
    for _ in 0..20 {
        match tokio::time::timeout(Duration::from_millis(300), inbound.message()).await { Ok(Ok(Some(r))) => datas.extend(r.received_messages.iter().map(|m| m.message.as_ref().map(|x| x.data[0]).unwrap_or(0))), _ => break }
    }
    if datas.contains(&1) { return Err(f("C02", "a delivery acknowledged in a streaming control message (which also listed the same ack id with a 30 s extension) was delivered again".into())); }
    Ok(())
}

/// C17 "a rejected request changes no state", on a StreamingPull control message: one message carries a valid ack of
/// a live delivery together with a malformed ack id (or a negative value) in its deadline-modification lists. It is
/// rejected with INVALID_ARGUMENT; the acknowledgement it carried must not have been applied.
async fn s_stream_reject_atomic(h: &mut Host) -> Result<(), Fail> {
    for (k, (bad_id, bad_secs)) in [("not-an-ack-id", 10), ("LIVE2", -1)].into_iter().enumerate() {
        let (t, s) = (format!("projects/p/topics/sra{}", k), format!("projects/p/subscriptions/sra{}", k));
        h.topic(&t).await.map_err(c10("CreateTopic of an absent, well-formed name"))?;
        h.sub(&s, &t, 0, None).await.map_err(c10("CreateSubscription of an absent name on an existing topic of the same project"))?;
        h.publish(&t, (1..=2u8).map(|i| (vec![i], HashMap::new())).collect()).await.map_err(setup("publish"))?;
        let held = h.pull(&s, 10, true).await.map_err(setup("pull"))?;
        if held.len() != 2 { return Err(f("SETUP", format!("expected 2 messages, got {}", held.len()))); }
        let bad_id = if bad_id == "LIVE2" { held[1].ack_id.clone() } else { bad_id.to_string() };
        let first = StreamingPullRequest { subscription: s.to_string(), ack_ids: vec![], modify_deadline_seconds: vec![], modify_deadline_ack_ids: vec![], stream_ack_deadline_seconds: 0, client_id: "c".into(), max_outstanding_messages: 10, max_outstanding_bytes: 0 };
        let ctl = StreamingPullRequest { subscription: String::new(), ack_ids: vec![held[0].ack_id.clone()], modify_deadline_seconds: vec![bad_secs], modify_deadline_ack_ids: vec![bad_id.clone()], stream_ack_deadline_seconds: 0, client_id: String::new(), max_outstanding_messages: 0, max_outstanding_bytes: 0 };
        let mut inbound = h.subscriber.streaming_pull(async_stream::stream! { yield first; yield ctl; futures::future::pending::<()>().await; }).await.map_err(setup("streaming_pull"))?.into_inner();
        match tokio::time::timeout(Duration::from_secs(5), inbound.message()).await {
            Ok(Err(e)) if e.code() == Code::InvalidArgument => {}
            Ok(Err(e)) => return Err(f("C17+C05", format!("a control message with the modification ({:?}, {} s) ended the stream with {:?} instead of INVALID_ARGUMENT", bad_id, bad_secs, e.code()))),
            _ => return Err(f("C17+C05", format!("a control message with the modification ({:?}, {} s) was not rejected with INVALID_ARGUMENT", bad_id, bad_secs))),
        }
        drop(inbound);
        // both deliveries are still outstanding: they come back after the 10 s lease, and only then
        if !h.pull(&s, 10, true).await.map_err(setup("pull"))?.is_empty() { return Err(f("C17+C05", "a rejected control message put a delivery back into the queue".into())); }
        jump(Duration::from_secs(12)).await;
        let back = h.pull(&s, 10, true).await.map_err(setup("pull"))?;
        let datas: Vec<u8> = back.iter().map(|m| m.message.as_ref().map(|x| x.data[0]).unwrap_or(0)).collect();
        if !datas.contains(&1) { return Err(f("C17", format!("a StreamingPull control message [ack of delivery 1; modification ({:?}, {} s)] was rejected with INVALID_ARGUMENT, yet its acknowledgement was applied: after the lease only the messages {:?} came back (a rejected request changes no state)", bad_id, bad_secs, datas))); }
    }
    Ok(())
}

/// C15: a unary Pull parked on an empty subscription does not turn into an empty OK response when the subscription
/// is deleted under it (it fails, or keeps waiting for its limit)
async fn s_pull_wait_delete(h: &mut Host) -> Result<(), Fail> {
    let t = "projects/p/topics/pwd";
    h.topic(t).await.map_err(c10("CreateTopic of an absent, well-formed name"))?;
    let mut empty_ok = 0usize;
    for i in 0..10 {
        let s = format!("projects/p/subscriptions/pwd{}", i);
        h.sub(&s, t, 0, None).await.map_err(c10("CreateSubscription of an absent name on an existing topic of the same project"))?;
        let mut c = h.subscriber.clone();
        let s2 = s.clone();
        let mut waiter = tokio::spawn(async move {
            #[allow(deprecated)]
            c.pull(PullRequest { subscription: s2, return_immediately: false, max_messages: 1 }).await.map(|r| r.into_inner().received_messages)
        });
        tokio::time::sleep(Duration::from_millis(120)).await;
        h.subscriber.delete_subscription(DeleteSubscriptionRequest { subscription: s.clone() }).await.map_err(|e| f("C11+C10", format!("DeleteSubscription failed: {:?}", e.code())))?;
        match tokio::time::timeout(Duration::from_millis(400), &mut waiter).await {
            Ok(Ok(Ok(m))) if m.is_empty() => empty_ok += 1,
            Ok(_) => {}
            Err(_) => waiter.abort(),
        }
    }
    if empty_ok > 0 { return Err(f("C15", format!("{} of 10 unary Pulls (return_immediately=false) parked on an empty subscription returned an empty OK response right after DeleteSubscription, well before their wait limit", empty_ok))); }
    // the topic is deleted, the subscription survives with one delivery outstanding: a Pull without return_immediately
    // on its (now empty) queue keeps waiting and is answered with the message once it is nacked
    let (t2, s2) = ("projects/p/topics/pwd2", "projects/p/subscriptions/pwd2x");
    h.topic(t2).await.map_err(c10("CreateTopic of an absent, well-formed name"))?;
    h.sub(s2, t2, 0, None).await.map_err(c10("CreateSubscription of an absent name on an existing topic of the same project"))?;
    h.publish(t2, vec![(vec![7], HashMap::new())]).await.map_err(setup("publish"))?;
    let held = h.pull(s2, 1, true).await.map_err(setup("pull"))?;
    if held.len() != 1 { return Err(f("SETUP", format!("expected 1 message, got {}", held.len()))); }
    h.publisher.delete_topic(DeleteTopicRequest { topic: t2.to_string() }).await.map_err(|e| f("C11+C10", format!("DeleteTopic failed: {:?}", e.code())))?;
    let mut c = h.subscriber.clone();
    let mut waiter = tokio::spawn(async move {
        #[allow(deprecated)]
        c.pull(PullRequest { subscription: s2.to_string(), return_immediately: false, max_messages: 1 }).await.map(|r| r.into_inner().received_messages)
    });
    match tokio::time::timeout(Duration::from_millis(400), &mut waiter).await {
        Ok(Ok(Ok(m))) if m.is_empty() => return Err(f("C15", "a unary Pull (return_immediately=false) on a subscription whose topic was deleted returned an empty OK response at once, well before its wait limit".into())),
        Ok(_) => {}
        Err(_) => {}
    }
    h.modack(s2, vec![held[0].ack_id.clone()], 0).await.map_err(|e| f("C11+C05", format!("nack on a subscription whose topic was deleted failed: {:?}", e.code())))?;
    match tokio::time::timeout(Duration::from_secs(5), &mut waiter).await {
        Ok(Ok(Ok(m))) if m.len() == 1 => {}
        Ok(Ok(Ok(m))) => return Err(f("C15+C11", format!("a Pull waiting on a subscription whose topic was deleted was answered with {} messages after a nack made one available", m.len()))),
        Ok(Ok(Err(e))) => return Err(f("C11+C15", format!("a Pull on a subscription whose topic was deleted failed with {:?}", e.code()))),
        _ => { waiter.abort(); return Err(f("C15+C06+C11", "a Pull waiting on a subscription whose topic was deleted was not answered within 5 s after a nack made a message available".into())); }
    }
    Ok(())
}

/// C01 on the push path: a delivery that the endpoint answers with a status other than 102/200/201/202/204 is not
/// acknowledged and comes back on a later push round
async fn s_push_status(h: &mut Host) -> Result<(), Fail> {
    let (t, s) = ("projects/p/topics/pst", "projects/p/subscriptions/pst");
    let script = vec![203u16, 500, 205, 206, 301];
    let (url, mut rx) = push_endpoint_scripted(0, script.clone()).await?;
    h.topic(t).await.map_err(c10("CreateTopic of an absent, well-formed name"))?;
    h.sub(s, t, 0, Some(&url)).await.map_err(c10("CreateSubscription (push) of an absent name on an existing topic"))?;
    h.publish(t, vec![(b"once".to_vec(), HashMap::new())]).await.map_err(setup("publish"))?;
    let mut posts = 0usize;
    for _ in 0..40 {
        jump(Duration::from_secs(1)).await;
        while rx.try_recv().is_ok() { posts += 1; }
        if posts > script.len() { break; }
    }
    if posts == 0 { return Err(f("SETUP", "push endpoint received nothing".into())); }
    if posts <= script.len() {
        return Err(f("C01", format!("push endpoint answering {:?} and 200 afterwards: the message was POSTed {} times over 40 push rounds; answer #{} ({}) is none of 102/200/201/202/204 and must not count as an acknowledgement", script, posts, posts, script[posts - 1])));
    }
    Ok(())
}

/// C11 on the push path: once DeleteSubscription has returned, its endpoint receives nothing further (a handful of
/// requests already in flight are tolerated); C17: a push endpoint that starts with http but is not a URL does not
/// take the push loop (and with it every other push subscription) down
async fn s_push_lifecycle(h: &mut Host) -> Result<(), Fail> {
    let (t, s, good) = ("projects/p/topics/pl", "projects/p/subscriptions/pl", "projects/p/subscriptions/plgood");
    let (slow_url, mut slow_rx) = push_endpoint_delayed(40).await?;
    let (url, mut rx) = push_endpoint().await?;
    h.topic(t).await.map_err(c10("CreateTopic of an absent, well-formed name"))?;
    h.sub(s, t, 0, Some(&slow_url)).await.map_err(c10("CreateSubscription (push) of an absent name on an existing topic"))?;
    for b in 0..2u8 { h.publish(t, (0..400u32).map(|i| (vec![b, (i >> 8) as u8, i as u8], HashMap::new())).collect()).await.map_err(setup("publish"))?; }
    // wait until the dispatch of the backlog is under way (one request every <= 5 ms to a slow endpoint), then delete
    let mut before = 0usize;
    while before < 20 { match tokio::time::timeout(Duration::from_secs(10), slow_rx.recv()).await { Ok(Some(_)) => before += 1, _ => return Err(f("SETUP", format!("push endpoint received {} messages within 10 s", before))) } }
    h.subscriber.delete_subscription(DeleteSubscriptionRequest { subscription: s.into() }).await.map_err(|e| f("C11+C10", format!("DeleteSubscription failed: {:?}", e.code())))?;
    tokio::time::sleep(Duration::from_millis(200)).await;
    while slow_rx.try_recv().is_ok() {}     // whatever was in flight when the delete returned
    tokio::time::sleep(Duration::from_millis(1000)).await;
    let mut late = 0usize;
    while slow_rx.try_recv().is_ok() { late += 1; }
    if late > 3 { return Err(f("C11", format!("{} messages were POSTed to the endpoint of a push subscription more than 200 ms after its DeleteSubscription had returned", late))); }
    // malformed-but-accepted endpoint next to a healthy push subscription
    for (k, bad) in ["http//127.0.0.1:9/push", "https:", "http"].iter().enumerate() {
        match h.sub(&format!("projects/p/subscriptions/plbad{}", k), t, 0, Some(bad)).await {
            Ok(_) => {}
            Err(e) if e.code() == Code::InvalidArgument => {}
            Err(e) => return Err(f("C17", format!("CreateSubscription(push_endpoint={:?}): {:?}", bad, e.code()))),
        }
    }
    h.sub(good, t, 0, Some(&url)).await.map_err(c10("CreateSubscription (push) of an absent name on an existing topic"))?;
    tokio::time::sleep(Duration::from_millis(700)).await;     // a few push rounds with the odd endpoints registered
    while rx.try_recv().is_ok() {}
    h.publish(t, vec![(b"still-pushing".to_vec(), HashMap::new())]).await.map_err(|e| f("C17", format!("Publish after registering odd push endpoints failed: {:?}", e.code())))?;
    jump(Duration::from_secs(1)).await;
    let mut ok = false;
    for _ in 0..40 {
        match tokio::time::timeout(Duration::from_millis(250), rx.recv()).await {
            Ok(Some(body)) => { if let Ok(v) = serde_json::from_slice::<serde_json::Value>(&body) { if v["subscription"].as_str() == Some(good) { ok = true; break; } } }
            _ => {}
        }
    }
    if !ok { return Err(f("C17", "after a push subscription with a malformed (but accepted) endpoint was created, a healthy push subscription no longer receives its messages: the push loop is gone".into())); }
    Ok(())
}


/// C13 with real parallelism: the list handlers gather per-resource answers concurrently; on a multi-threaded runtime
/// the page must still be in creation order
async fn s_list_order_threads(h: &mut Host) -> Result<(), Fail> {
    let t = "projects/lo/topics/t";
    h.topic(t).await.map_err(c10("CreateTopic of an absent, well-formed name"))?;
    let mut subs = Vec::new();
    for i in 0..8 { let n = format!("projects/lo/subscriptions/s{}", i); h.sub(&n, t, 0, None).await.map_err(c10("CreateSubscription of an absent name on an existing topic of the same project"))?; subs.push(n); }
    for round in 0..40 {
        let r = h.subscriber.list_subscriptions(ListSubscriptionsRequest { project: "projects/lo".into(), page_size: 1000, page_token: String::new() }).await.map_err(|e| f("C13", format!("ListSubscriptions: {:?}", e.code())))?.into_inner();
        let got: Vec<String> = r.subscriptions.iter().map(|x| x.name.clone()).collect();
        if got != subs { return Err(f("C13", format!("round {}: ListSubscriptions on a 4-thread runtime yields {:?}, creation order is {:?}", round, got, subs))); }
        let r = h.publisher.list_topic_subscriptions(ListTopicSubscriptionsRequest { topic: t.into(), page_size: 1000, page_token: String::new() }).await.map_err(|e| f("C13", format!("ListTopicSubscriptions: {:?}", e.code())))?.into_inner();
        if r.subscriptions != subs { return Err(f("C13+C11", format!("round {}: ListTopicSubscriptions on a 4-thread runtime yields {:?}, creation order is {:?}", round, r.subscriptions, subs))); }
    }
    Ok(())
}


/// C01 / C10 / C11: DeleteSubscription racing a CreateSubscription of the same name (retried while it answers
/// ALREADY_EXISTS). Once both have returned OK, the subscription exists, is listed by its topic and receives messages
async fn s_recreate_race(h: &mut Host) -> Result<(), Fail> {
    let (t, s) = ("projects/p/topics/rr", "projects/p/subscriptions/rr");
    h.topic(t).await.map_err(c10("CreateTopic of an absent, well-formed name"))?;
    h.sub(s, t, 0, None).await.map_err(c10("CreateSubscription of an absent name on an existing topic of the same project"))?;
    for round in 0..24 {
        let mut d = h.subscriber.clone();
        let del = async move { d.delete_subscription(DeleteSubscriptionRequest { subscription: s.to_string() }).await.map(|_| ()) };
        let mut c = h.subscriber.clone();
        let cre = async move {
            for _ in 0..(round % 8) { tokio::task::yield_now().await; }
            for _ in 0..5000 {
                let req = Subscription {
                    name: s.to_string(), topic: t.to_string(), push_config: None,
                    bigquery_config: None, ack_deadline_seconds: 0, retain_acked_messages: false, message_retention_duration: None,
                    labels: Default::default(), enable_message_ordering: false, expiration_policy: None, filter: String::new(), dead_letter_policy: None,
                    retry_policy: None, detached: false, enable_exactly_once_delivery: false, topic_message_retention_duration: None, state: 0,
                };
                match c.create_subscription(req).await {
                    Ok(_) => return Ok(true),
                    Err(e) if e.code() == Code::AlreadyExists => continue,
                    Err(e) => return Err(e),
                }
            }
            Ok(false)
        };
        let (rd, rc) = tokio::join!(del, cre);
        if let Err(e) = rd { return Err(f("C11+C10", format!("round {}: DeleteSubscription failed: {:?}", round, e.code()))); }
        let created = match rc { Ok(b) => b, Err(e) => return Err(f("C10", format!("round {}: CreateSubscription racing a DeleteSubscription of the same name: {:?}", round, e.code()))) };
        if !created { return Err(f("C10", format!("round {}: after DeleteSubscription returned, CreateSubscription of that name still answers ALREADY_EXISTS", round))); }
        // both returned OK: the new subscription exists, is attached, and receives what is published now
        expect_code(h.sub(s, t, 0, None).await, Code::AlreadyExists, "C10+C01+C11", "DeleteSubscription and a racing CreateSubscription of the same name both returned OK, so the subscription exists and is attached; a further CreateSubscription of that name")?;
        let l = h.publisher.list_topic_subscriptions(ListTopicSubscriptionsRequest { topic: t.into(), page_size: 10, page_token: String::new() }).await.map_err(|e| f("C11", format!("ListTopicSubscriptions: {:?}", e.code())))?.into_inner();
        if l.subscriptions != vec![s.to_string()] { return Err(f("C11+C01", format!("round {}: delete and re-create of one subscription name both returned OK; the topic now lists {:?}", round, l.subscriptions))); }
        h.publish(t, vec![(vec![round as u8], HashMap::new())]).await.map_err(|e| f("C01+C11", format!("round {}: Publish failed: {:?}", round, e.code())))?;
        match h.pull(s, 10, true).await {
            Ok(m) if m.len() == 1 && m[0].message.as_ref().map(|x| x.data == vec![round as u8]).unwrap_or(false) => { h.ack(s, vec![m[0].ack_id.clone()]).await.map_err(setup("ack"))?; }
            Ok(m) => return Err(f("C01", format!("round {}: the re-created subscription received {} of 1 published messages", round, m.len()))),
            Err(e) => return Err(f("C10+C01", format!("round {}: Pull on the re-created subscription: {:?}", round, e.code()))),
        }
    }
    Ok(())
}


/// C15 (streaming limit) and C17 (inconsistent control messages) on an open StreamingPull
async fn s_stream_limits(h: &mut Host) -> Result<(), Fail> {
    let (t, s) = ("projects/p/topics/sl", "projects/p/subscriptions/sl");
    h.topic(t).await.map_err(c10("CreateTopic of an absent, well-formed name"))?;
    h.sub(s, t, 0, None).await.map_err(c10("CreateSubscription of an absent name on an existing topic of the same project"))?;
    h.publish(t, (0..5).map(|i| (vec![i], HashMap::new())).collect()).await.map_err(setup("publish"))?;
    let open = |max: i64| StreamingPullRequest { subscription: s.to_string(), ack_ids: vec![], modify_deadline_seconds: vec![], modify_deadline_ack_ids: vec![], stream_ack_deadline_seconds: 0, client_id: "c".into(), max_outstanding_messages: max, max_outstanding_bytes: 100_000_000 };
    // out-of-range limits are rejected
    for bad in [-1i64, 65536, i64::MAX] {
        let first = open(bad);
        let r = h.subscriber.streaming_pull(async_stream::stream! { yield first; }).await;
        match r {
            Err(e) if e.code() == Code::InvalidArgument => {}
            Err(e) => return Err(f("C17+C15", format!("StreamingPull(max_outstanding_messages={}): {:?} instead of INVALID_ARGUMENT", bad, e.code()))),
            Ok(resp) => {
                let mut inb = resp.into_inner();
                match tokio::time::timeout(Duration::from_secs(5), inb.message()).await {
                    Ok(Err(e)) if e.code() == Code::InvalidArgument => {}
                    _ => return Err(f("C17+C15", format!("StreamingPull(max_outstanding_messages={}) was not rejected with INVALID_ARGUMENT", bad))),
                }
            }
        }
    }
    let (tx, mut rx) = tokio::sync::mpsc::channel::<StreamingPullRequest>(16);
    let first = open(2);
    let mut inbound = h.subscriber.streaming_pull(async_stream::stream! { yield first; while let Some(r) = rx.recv().await { yield r; } }).await.map_err(setup("streaming_pull"))?.into_inner();
    let mut got = 0;
    while got < 5 {
        match tokio::time::timeout(Duration::from_secs(15), inbound.message()).await {
            Ok(Ok(Some(r))) => {
                if r.received_messages.len() > 2 { return Err(f("C15", format!("a StreamingPull response carries {} messages, max_outstanding_messages = 2", r.received_messages.len()))); }
                got += r.received_messages.len();
                let acks = r.received_messages.iter().map(|m| m.ack_id.clone()).collect();
                tx.send(StreamingPullRequest { subscription: String::new(), ack_ids: acks, modify_deadline_seconds: vec![], modify_deadline_ack_ids: vec![], stream_ack_deadline_seconds: 0, client_id: String::new(), max_outstanding_messages: 0, max_outstanding_bytes: 0 }).await.map_err(setup("send"))?;
            }
            _ => return Err(f("C01+C06", format!("an open StreamingPull received only {} of 5 available messages", got))),
        }
    }
    // an inconsistent control message ends the stream with INVALID_ARGUMENT
    tx.send(StreamingPullRequest { subscription: String::new(), ack_ids: vec![], modify_deadline_seconds: vec![10], modify_deadline_ack_ids: vec![], stream_ack_deadline_seconds: 0, client_id: String::new(), max_outstanding_messages: 0, max_outstanding_bytes: 0 }).await.map_err(setup("send"))?;
    match tokio::time::timeout(Duration::from_secs(15), inbound.message()).await {
        Ok(Err(e)) if e.code() == Code::InvalidArgument => {}
        Ok(Err(e)) => return Err(f("C17", format!("inconsistent StreamingPull control message: {:?} instead of INVALID_ARGUMENT", e.code()))),
        _ => return Err(f("C17", "inconsistent StreamingPull control message (lengths differ) was not rejected".into())),
    }
    // the server keeps serving
    h.publish(t, vec![(vec![9], HashMap::new())]).await.map_err(|e| f("C17", format!("server no longer serves after a rejected control message: {:?}", e.code())))?;
    Ok(())
}

pub fn run_all() -> i32 {
    type Sc = fn(&mut Host) -> std::pin::Pin<Box<dyn std::future::Future<Output = Result<(), Fail>> + '_>>;
    let multi: Vec<(&str, Sc)> = vec![("pull_publish_race", |h| Box::pin(s_pull_publish_race(h))), ("list_order_threads", |h| Box::pin(s_list_order_threads(h)))];
    let scenarios: Vec<(&str, Sc)> = vec![
        ("pull_limits", |h| Box::pin(s_pull_limits(h))),
        ("batches", |h| Box::pin(s_batches(h))),
        ("multi_extend", |h| Box::pin(s_multi_extend(h))),
        ("stream_modack", |h| Box::pin(s_stream_modack(h))),
        ("stream_limits", |h| Box::pin(s_stream_limits(h))),
        ("namespace", |h| Box::pin(s_namespace(h))),
        ("malformed", |h| Box::pin(s_malformed(h))),
        ("lists_and_content", |h| Box::pin(s_lists_and_content(h))),
        ("two_waiters", |h| Box::pin(s_two_waiters(h))),
        ("push_content", |h| Box::pin(s_push_content(h))),
        ("long_walk", |h| Box::pin(s_long_walk(h))),
        ("cross_consumers", |h| Box::pin(s_cross_consumers(h))),
        ("stream_concurrent_publish", |h| Box::pin(s_stream_concurrent_publish(h))),
        ("multi_stream", |h| Box::pin(s_multi_stream(h))),
        ("large_requests", |h| Box::pin(s_large_requests(h))),
        ("stream_mixed_modack", |h| Box::pin(s_stream_mixed_modack(h))),
        ("push_lifecycle", |h| Box::pin(s_push_lifecycle(h))),
        ("recreate_race", |h| Box::pin(s_recreate_race(h))),
        ("stream_same_id", |h| Box::pin(s_stream_same_id(h))),
        ("stream_reject_atomic", |h| Box::pin(s_stream_reject_atomic(h))),
        ("pull_wait_delete", |h| Box::pin(s_pull_wait_delete(h))),
        ("push_status", |h| Box::pin(s_push_status(h))),
    ];
    let n = scenarios.len() + multi.len();
    // every scenario runs; each failing one prints its own WITNESS line (the driver picks the one for the property at hand)
    let (mut witnesses, mut setup_errors) = (0, 0);
    let all: Vec<(&str, Sc, bool)> = scenarios.into_iter().map(|(a, b)| (a, b, false)).chain(multi.into_iter().map(|(a, b)| (a, b, true))).collect();
    for (name, sc, threads) in all {
        // scenarios that move virtual time need the current-thread runtime; the race scenarios use 4 worker threads
        let rt = if threads { tokio::runtime::Builder::new_multi_thread().worker_threads(4).enable_all().build().unwrap() }
                 else { tokio::runtime::Builder::new_current_thread().enable_all().build().unwrap() };
        let r: Result<(), Fail> = rt.block_on(async {
            let mut h = Host::start().await?;
            let r = sc(&mut h).await;
            h.stop().await;
            r
        });
        rt.shutdown_timeout(Duration::from_millis(200));
        if let Err(e) = r {
            if e.prop == "SETUP" { println!("SETUP-ERROR scenario {}: {}", name, e.what); setup_errors += 1; continue; }
            println!("WITNESS {{\"kind\":\"rpc\",{},\"scenario\":\"{}\",\"observed\":{:?}}}", crate::prop_json(e.prop), name, e.what);
            witnesses += 1;
        }
    }
    if witnesses > 0 { return 1; }
    if setup_errors > 0 { return 3; }
    println!("NO-WITNESS rpc scenarios={}", n);
    0
}
