"""Witness search and replay against the REAL code (plain Rust crate in /verif/replay with a path dependency on /repo).

find_witness(prop, violation, HERE, REPO) -> dict | None     called by ./check after a failed obligation
replay(path, HERE, REPO) -> exit code                        ./check Cxx --replay <file>
crosscheck(prop, HERE, REPO, seed) -> dict                   thorough tier: the contracts are not stronger than the code
"""
import hashlib
import json
import os
import re
import shutil
import subprocess
import time

HISTORY_PROPS = {"C01", "C02", "C03", "C04", "C05", "C08", "C15", "C11"}
NAME_PROPS = {"C18", "C17"}
PAGING_PROPS = {"C13", "C10"}


def _build(HERE, REPO):
    key = hashlib.sha1(REPO.encode()).hexdigest()[:8]
    work = os.path.join(HERE, ".work", "replay_" + key)
    os.makedirs(work, exist_ok=True)
    tmpl = open(os.path.join(HERE, "replay", "Cargo.toml.in")).read().replace("@REPO@", REPO)
    open(os.path.join(work, "Cargo.toml"), "w").write(tmpl)
    if os.path.isdir(os.path.join(work, "src")):
        shutil.rmtree(os.path.join(work, "src"))
    shutil.copytree(os.path.join(HERE, "replay", "src"), os.path.join(work, "src"))
    lock = os.path.join(REPO, "Cargo.lock")
    if os.path.exists(lock):
        shutil.copy(lock, os.path.join(work, "Cargo.lock"))
    env = dict(os.environ, CARGO_NET_OFFLINE="true", CARGO_TARGET_DIR=os.path.join(HERE, ".work", "replay_target"))
    p = subprocess.run(["cargo", "build", "--offline", "--quiet"], cwd=work, env=env, capture_output=True, text=True)
    if p.returncode != 0:
        return None, p.stderr[-1500:]
    return os.path.join(HERE, ".work", "replay_target", "debug", "deltio-replay"), ""


def _run(binary, args, timeout):
    try:
        p = subprocess.run([binary] + [str(a) for a in args], capture_output=True, text=True, timeout=timeout)
    except subprocess.TimeoutExpired:
        return None, "timeout"
    for ln in p.stdout.splitlines():
        if ln.startswith("WITNESS "):
            try:
                return json.loads(ln[len("WITNESS "):]), ln
            except Exception:
                return {"raw": ln[len("WITNESS "):]}, ln
    return None, p.stdout.strip()[-300:]


def _searches(prop, violation):
    ob = (violation or {}).get("obligation", "")
    res = []
    if prop in HISTORY_PROPS or ob.startswith("B1/"):
        res.append("history")
    if prop in NAME_PROPS or ob.startswith("B3/"):
        res.append("names")
    if prop in PAGING_PROPS or "Paging" in ob or "list_" in ob:
        res.append("paging")
    return res


def find_witness(prop, violation, HERE, REPO):
    binary, err = _build(HERE, REPO)
    if binary is None:
        return None
    seed = int(os.environ.get("VERIF_SEED", "0") or 0)
    for kind in _searches(prop, violation):
        if kind == "history":
            for s in range(seed + 1, seed + 5):
                w, _ = _run(binary, ["history", s, 400, 30], 120)
                if w:
                    return w
        elif kind == "names":
            w, _ = _run(binary, ["names", 4], 120)
            if w:
                return w
        elif kind == "paging":
            w, _ = _run(binary, ["paging", 7], 120)
            if w:
                return w
    return None


def crosscheck(prop, HERE, REPO, seed):
    """thorough tier: run the executable mirrors of the contracts against the real crate"""
    t0 = time.time()
    binary, err = _build(HERE, REPO)
    if binary is None:
        return {"status": "build-failed", "detail": err}
    runs = []
    witness = None
    for kind in _searches(prop, None):
        if kind == "history":
            for s in range(seed + 1, seed + 4):
                w, out = _run(binary, ["history", s, 600, 40], 300)
                runs.append({"cmd": "history %d 600 40" % s, "result": "WITNESS" if w else out})
                witness = witness or w
        elif kind == "names":
            w, out = _run(binary, ["names", 5], 300)
            runs.append({"cmd": "names 5", "result": "WITNESS" if w else out})
            witness = witness or w
        elif kind == "paging":
            w, out = _run(binary, ["paging", 9], 300)
            runs.append({"cmd": "paging 9", "result": "WITNESS" if w else out})
            witness = witness or w
    return {"status": "divergence" if witness else "agree", "runs": runs, "witness": witness, "wall_s": round(time.time() - t0, 1)}


def replay(path, HERE, REPO):
    d = json.load(open(path))
    prop = d.get("property")
    print("REPLAY property=%s obligation=%s repo_span=%s" % (prop, d.get("obligation"), d.get("repo_span")))
    print("verifier message: %s" % d.get("verifier_message"))
    w = d.get("witness")
    if w:
        binary, err = _build(HERE, REPO)
        if binary is None:
            print("REPLAY: cannot build the replay crate: %s" % err)
            return 2
        if w.get("kind") == "history":
            got, out = _run(binary, ["run-history", w.get("ack_deadline_s", 10), json.dumps(w["ops"])], 120)
        elif w.get("kind", "").startswith("name"):
            got, out = _run(binary, ["names", 4], 120)
        else:
            got, out = _run(binary, ["paging", 7], 120)
        if got:
            print("REPLAY: the stored witness still fails on the real code: %s" % json.dumps(got))
            return 1
        print("REPLAY: the stored witness no longer fails on the real code (%s)" % out)
        return 0
    # no witness: re-run the obligation in the verifier
    p = subprocess.run([os.path.join(HERE, "check"), prop, "--tier", "quick"], capture_output=True, text=True,
                       env=dict(os.environ, VERIF_REPO=REPO))
    ob = d.get("obligation")
    still = any(ob in ln for ln in p.stdout.splitlines())
    print(p.stdout.strip()[-1500:])
    if still:
        print("REPLAY: obligation %s still fails in the verifier (no concrete input was found for it)" % ob)
        return 1
    print("REPLAY: obligation %s is discharged on the current tree" % ob)
    return 0
