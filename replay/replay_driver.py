"""Witness search and replay against the REAL code (plain Rust crate in /verif/replay with a path dependency on /repo).

find_witness(prop, violation, HERE, REPO) -> dict | None     called by ./check after a failed obligation
replay(path, HERE, REPO) -> exit code                        ./check Cxx --replay <file>
crosscheck(prop, HERE, REPO, seed) -> dict                   thorough tier: the contracts are not stronger than the code
"""
import hashlib
import json
import os
import re
import shutil
import subprocess
import time

HISTORY_PROPS = {"C01", "C02", "C03", "C04", "C05", "C08", "C15", "C11"}
NAME_PROPS = {"C18", "C17"}
PAGING_PROPS = {"C13", "C10"}


def _build(HERE, REPO):
    key = hashlib.sha1(REPO.encode()).hexdigest()[:8]
    work = os.path.join(HERE, ".work", "replay_" + key)
    os.makedirs(work, exist_ok=True)
    tmpl = open(os.path.join(HERE, "replay", "Cargo.toml.in")).read().replace("@REPO@", REPO)
    open(os.path.join(work, "Cargo.toml"), "w").write(tmpl)
    if os.path.isdir(os.path.join(work, "src")):
        shutil.rmtree(os.path.join(work, "src"))
    shutil.copytree(os.path.join(HERE, "replay", "src"), os.path.join(work, "src"))
    for fn in os.listdir(os.path.join(work, "src")):   # files that mount real sources of REPO by #[path]
        if fn.endswith(".in"):
            t = open(os.path.join(work, "src", fn)).read().replace("@REPO@", REPO)
            open(os.path.join(work, "src", fn[:-3]), "w").write(t)
            os.remove(os.path.join(work, "src", fn))
    lock = os.path.join(REPO, "Cargo.lock")
    if os.path.exists(lock):
        shutil.copy(lock, os.path.join(work, "Cargo.lock"))
    env = dict(os.environ, CARGO_NET_OFFLINE="true", CARGO_TARGET_DIR=os.path.join(HERE, ".work", "replay_target"))
    p = subprocess.run(["cargo", "build", "--offline", "--quiet"], cwd=work, env=env, capture_output=True, text=True)
    if p.returncode != 0:
        return None, p.stderr[-1500:]
    return os.path.join(HERE, ".work", "replay_target", "debug", "deltio-replay"), ""


def _run_all(binary, args, timeout, prop=None):
    """-> (list of witnesses, text): every WITNESS line of the search (the rpc suite prints one per failing scenario);
    prop: the random searches keep going past inputs that contradict only other properties (VERIF_PROP)"""
    try:
        env = dict(os.environ)
        env.pop("VERIF_PROP", None)
        if prop:
            env["VERIF_PROP"] = prop
        p = subprocess.run([binary] + [str(a) for a in args], capture_output=True, text=True, timeout=timeout, env=env)
    except subprocess.TimeoutExpired:
        return [], "timeout"
    ws = []
    for ln in p.stdout.splitlines():
        if ln.startswith("WITNESS "):
            try:
                ws.append(json.loads(ln[len("WITNESS "):]))
            except Exception:
                ws.append({"raw": ln[len("WITNESS "):]})
    if ws:
        return ws, "\n".join(l for l in p.stdout.splitlines() if l.startswith("WITNESS "))[:1500]
    if "NO-WITNESS" not in p.stdout:
        return [], "ERROR: search ended without a verdict (exit %s): %s" % (p.returncode, (p.stdout + p.stderr).strip()[-300:])
    return [], p.stdout.strip()[-300:]


def _run(binary, args, timeout):
    ws, out = _run_all(binary, args, timeout)
    return (ws[0] if ws else None), out


# which bounded searches stand in for the parts of each property that are out of the deductive verifier's reach
# (async fan-out, actor glue, iterator-adapter list bodies, gRPC plumbing): (command, quick args, thorough args, bound)
SEARCHES = {
    "history":   (["history", "{seed}", 200, 25], ["history", "{seed}", 3000, 40],
                  "random histories of publish/pull/ack/modify/advance on one subscription (+ a second one on the same topic), paused clock"),
    "lifecycle": (["lifecycle", "{seed}", 300, 25], ["lifecycle", "{seed}", 4000, 40],
                  "random create/delete/publish histories over 2 topic names x 3 subscription names, incl. racing creates and held topic handles"),
    "order":     (["order", 40], ["order", 400], "2-4 concurrent publishers x 3 messages on a 2-thread runtime, 2 subscriptions, with and without 24-48 other requests queued on the first subscription (also on a current-thread runtime); 4 posts sequences (2-14 posts) put into one subscription mailbox before its actor runs; one 2500-message request racing a small one; 4 OS threads racing to create 400 / 4000 absent topic names"),
    "names":     (["names", 3], ["names", 5], "all strings = stem + suffix over {p,t,/,s,e-acute,-} up to the given suffix length, 31 stems (among them repeated and missing segments, a repeated `projects/` prefix, leading slashes, non-ASCII segments); 5 canonical stems + suffixes of up to 2 special characters (quotes, backslash, control, combining, space, %,#,?); identity of names; text of message ids for 13 x 19 (topic number, counter) pairs"),
    "rpc":       (["rpc"], ["rpc"], "24 scripted gRPC scenarios over a unix socket (22 on a current-thread runtime with virtual-time jumps, 2 on 4 worker threads): pull limits and waiting, batch parsing, in-stream modack, streaming limits and control messages, namespace status codes, malformed fields, list walks and content identity, two parked pulls, HTTP push payload content, a 300-topic list walk, several consumers of one subscription (stream + unary pull + second subscription + delete), concurrent publishers into an acknowledging stream, a multi-id deadline extension, 150 rounds of a unary Pull racing a Publish on a 4-thread runtime, three StreamingPull streams sharing one subscription, requests with 1500 ack ids / 1200 modifications / a 1500-message stream window, a mixed in-stream nack+extend, push delivery after delete and next to malformed endpoints, list order with 150 per page and on 4 threads, delete racing re-create of one name; one ack id twice in a streaming control message (ack + extension, extension + nack); a parked unary Pull whose subscription is deleted (10 rounds); a push endpoint answering 203 / 500 / 205 / 206 / 301 before 200; a control message with a valid ack and a malformed modification (rejected: nothing applied); unsupported push endpoints with multi-byte characters at every small offset; never-issued tokens for offsets next to usize::MAX"),
    "tokens":    (["tokens", 22], ["tokens", 27], "page-token codec (src/api/page_token.rs mounted by path): encode/decode round trip for every offset below 2^22 (thorough: 2^27), every byte value at every byte position over 3 backgrounds, 200000 random 64-bit offsets; 200000 hostile strings never panic"),
    "wakeup":    (["wakeup", 6], ["wakeup", 30], "manager level, paused clock: a parked consumer is woken although the consumer woken first abandoned its pull (6 / 30 rounds); 200 / 600 / 800 leases expiring together while 400 other requests arrive, 6 cycles each; a publish fanning out to a subscription whose mailbox is busy (6+ rounds); a push round over a backlog of 300 / 900 with an endpoint that never answers, a Pull taking the messages over after the 10 s lease, endpoint watched for 8 s; publishes of 600-1500 messages drained with pulls of 1001-5000 (first deliveries in publish order); two leases handed out 15-85 ms apart at 15 clock phases, the later one observed 1 ms before its own deadline"),
    "paging":    (["paging", 7], ["paging", 12], "page walks over 0,1,2,n resources in 2 projects, 11 page sizes x 10 start offsets (incl. usize::MAX, MAX-1, MAX-999, MAX-1000), 3 list operations"),
}
BY_PROP = {
    "C01": ["history", "lifecycle", "wakeup", "rpc"], "C02": ["history", "rpc"], "C03": ["history", "wakeup", "rpc"], "C04": ["history", "wakeup", "rpc"], "C05": ["history", "rpc"],
    "C08": ["order", "history", "wakeup", "rpc"], "C09": ["lifecycle", "names", "order", "rpc"], "C10": ["lifecycle", "order", "rpc"], "C11": ["lifecycle", "history", "rpc"],
    "C13": ["paging", "tokens", "lifecycle", "rpc"], "C15": ["history", "wakeup", "rpc"], "C17": ["names", "paging", "tokens", "rpc"], "C18": ["names", "rpc"],
}


def standin(prop, HERE, REPO, tier="quick", seed=0):
    """runs the bounded searches that serve `prop`; returns {"status", "runs", "witness"}; a witness counts for
    `prop` only when the oracle tagged it with that property"""
    t0 = time.time()
    kinds = BY_PROP.get(prop, [])
    if not kinds:
        return {"status": "none", "runs": [], "witness": None}
    binary, err = _build(HERE, REPO)
    if binary is None:
        return {"status": "build-failed", "detail": err, "runs": [], "witness": None}
    runs, witness, other, errors = [], None, None, []
    for kind in kinds:
        q, th, bound = SEARCHES[kind]
        args = [str(a).replace("{seed}", str(seed + 1)) for a in (th if tier == "thorough" else q)]
        ws, out = _run_all(binary, args, 600 if tier == "thorough" else 120, prop)
        if not ws and kind == "history" and str(out).startswith("ERROR") and "(exit -" in str(out):
            # the real crate took the search process down (abort): repeat with every history in a process of its own
            os.environ["VERIF_ISOLATE"] = "1"
            try:
                ws, out = _run_all(binary, args, 900, prop)
            finally:
                os.environ.pop("VERIF_ISOLATE", None)
        runs.append({"search": " ".join(args), "bound": bound,
                     "result": ("WITNESS " + ", ".join("property=%s" % w.get("property") for w in ws)) if ws else out})
        if not ws and str(out).startswith(("ERROR", "timeout")):
            errors.append("%s: %s" % (" ".join(args), out))
        for w in ws:
            if (w.get("property") == prop or prop in w.get("also", [])) and witness is None:
                witness = w
            elif other is None:
                other = w
    return {"status": "witness" if witness else ("error" if errors else "clean"), "errors": errors, "runs": runs, "witness": witness, "other_property_witness": other,
            "wall_s": round(time.time() - t0, 1)}


def find_witness(prop, violation, HERE, REPO):
    seed = int(os.environ.get("VERIF_SEED", "0") or 0)
    for s in range(seed, seed + 3):
        r = standin(prop, HERE, REPO, "quick", s)
        if r.get("witness"):
            return r["witness"]
    # an input on which the code contradicts ANOTHER property is that property's business (its own check reports it);
    # it is never attached to an obligation of this property
    return None


def crosscheck(prop, HERE, REPO, seed):
    return standin(prop, HERE, REPO, "thorough", seed)


def replay(path, HERE, REPO):
    d = json.load(open(path))
    prop = d.get("property")
    print("REPLAY property=%s obligation=%s repo_span=%s" % (prop, d.get("obligation"), d.get("repo_span")))
    print("verifier message: %s" % d.get("verifier_message"))
    w = d.get("witness")
    if w:
        binary, err = _build(HERE, REPO)
        if binary is None:
            print("REPLAY: cannot build the replay crate: %s" % err)
            return 2
        if w.get("kind") == "history":
            got, out = _run(binary, ["run-history", w.get("ack_deadline_s", 10), json.dumps(w["ops"]), w.get("uptime_days", 0)], 120)
        elif w.get("kind") == "lifecycle":
            got, out = _run(binary, ["run-lifecycle", json.dumps(w["ops"])], 120)
        elif w.get("kind") == "order":
            got, out = _run(binary, ["order", 200], 300)
        elif w.get("kind") == "rpc":
            ws, out = _run_all(binary, ["rpc"], 300)
            got = next((x for x in ws if x.get("scenario") == w.get("scenario")), None)
        elif w.get("kind") == "wakeup":
            got, out = _run(binary, ["wakeup", 30], 300)
        elif w.get("kind") == "tokens":
            got, out = _run(binary, ["tokens", 22], 300)
        elif w.get("kind", "").startswith("name"):
            got, out = _run(binary, ["names", 4], 120)
        else:
            got, out = _run(binary, ["paging", 7], 120)
        if got:
            print("REPLAY: the stored witness still fails on the real code: %s" % json.dumps(got))
            return 1
        print("REPLAY: the stored witness no longer fails on the real code (%s)" % out)
        return 0
    # no witness: re-run the obligation in the verifier
    p = subprocess.run([os.path.join(HERE, "check"), prop, "--tier", "quick"], capture_output=True, text=True,
                       env=dict(os.environ, VERIF_REPO=REPO))
    ob = d.get("obligation")
    still = any(ob in ln for ln in p.stdout.splitlines())
    print(p.stdout.strip()[-1500:])
    if still:
        print("REPLAY: obligation %s still fails in the verifier (no concrete input was found for it)" % ob)
        return 1
    print("REPLAY: obligation %s is discharged on the current tree" % ob)
    return 0
